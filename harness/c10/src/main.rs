//! C10 — line/column arithmetic and error rendering are correct for all text.
//! Complete enumeration of all strings up to a length bound over {a, é, 😀, \n, \r, \t}
//! x all offsets x all offset pairs, against references written from the statement.
use pest::error::{Error, ErrorVariant, InputLocation, LineColLocation};
use pest::iterators::PairsBuilder;
use pest::{Position, Span};
use vcore::{catch, json, verdict, Cfg, Stats, Value};

const ALPHA: [char; 6] = ['a', 'é', '😀', '\n', '\r', '\t'];

// ------------------------------------------------------------------ references

/// line = 1 + number of '\n' before the offset, col = 1 + chars since the last '\n'.
fn ref_line_col(s: &str, o: usize) -> (usize, usize) {
    let before = &s[..o];
    let line = 1 + before.matches('\n').count();
    let last = before.rfind('\n').map(|i| i + 1).unwrap_or(0);
    (line, 1 + before[last..].chars().count())
}

/// The '\n'-terminated line containing the offset (the final segment may lack the '\n' and
/// may be empty).
fn ref_line_of(s: &str, o: usize) -> (usize, usize) {
    let start = s[..o].rfind('\n').map(|i| i + 1).unwrap_or(0);
    let end = s[o..].find('\n').map(|i| o + i + 1).unwrap_or(s.len());
    (start, end)
}

/// All lines of the text as half-open ranges; the empty segment after a final '\n' (or of the
/// empty text) is not a line.
fn ref_lines(s: &str) -> Vec<(usize, usize)> {
    let mut v = vec![];
    let mut st = 0;
    for (i, c) in s.char_indices() {
        if c == '\n' {
            v.push((st, i + 1));
            st = i + 1;
        }
    }
    if st < s.len() {
        v.push((st, s.len()));
    }
    v
}

/// Lines meeting the closed interval [a, b]: end > a and start <= b (DESIGN §3 C10).
fn ref_span_lines(s: &str, a: usize, b: usize) -> Vec<(usize, usize)> {
    ref_lines(s).into_iter().filter(|(ls, le)| *le > a && *ls <= b).collect()
}

/// Accepted renderings of a source line: CR/LF visualised; CR/LF removed (what pest does);
/// or only the terminator removed with inner CRs kept raw or visualised.
fn shown_forms(line: &str) -> Vec<String> {
    let t = line.trim_end_matches(['\r', '\n']);
    vec![visualize(line), strip(line), t.to_string(), t.replace('\r', "␍")]
}

fn visualize(x: &str) -> String {
    x.replace('\r', "␍").replace('\n', "␊")
}
fn strip(x: &str) -> String {
    x.replace(['\r', '\n'], "")
}

// ------------------------------------------------------------------ rendered error, parsed back

struct Rendered {
    header_line: usize,
    header_col: usize,
    /// (printed line number, text) for each source line shown
    lines: Vec<(usize, String)>,
    underline: String,
}

/// Parse pest's `Display` output: header, the first numbered source row, and the underline
/// row (the last row with a blank gutter that contains a `^`). Rows in between (continuation
/// line, `...`) are not judged — a continuation line may even contain a raw newline.
fn parse_rendered(out: &str) -> Result<Rendered, String> {
    let ls: Vec<&str> = out.split('\n').collect();
    let h = ls.first().ok_or("empty rendering")?;
    let h = h.trim_start();
    let h = h.strip_prefix("--> ").ok_or_else(|| format!("no --> header in {h:?}"))?;
    let (l, c) = h.split_once(':').ok_or("header without colon")?;
    let header_line: usize = l.parse().map_err(|_| format!("bad header line {l:?}"))?;
    let header_col: usize = c.parse().map_err(|_| format!("bad header col {c:?}"))?;
    let split_row = |row: &str| -> Option<(String, String)> {
        let bar = row.find(" |")?;
        let gutter = row[..bar].to_string();
        let rest = &row[bar + 2..];
        Some((gutter, rest.strip_prefix(' ').unwrap_or(rest).to_string()))
    };
    let mut lines = vec![];
    let mut underline = None;
    for row in &ls[1..] {
        let Some((gutter, rest)) = split_row(row) else { continue };
        if gutter.trim().is_empty() {
            if rest.contains('^') && !lines.is_empty() {
                underline = Some(rest);
            }
        } else if let Ok(n) = gutter.trim().parse::<usize>() {
            if underline.is_none() {
                lines.push((n, rest));
            }
        }
    }
    if !ls.last().map_or(false, |l| l.trim_start().starts_with("= MSG")) {
        return Err(format!("message row missing: {:?}", ls.last()));
    }
    if lines.is_empty() {
        return Err("no source line shown".into());
    }
    // every row that has a gutter must have its bar in the same column as the marker row
    let bar_of = |row: &str| row.find(" |").map(|b| row[..b].chars().count());
    let bars: Vec<usize> = ls[1..].iter().filter(|r| !r.trim_start().starts_with('=') ).filter_map(|r| {
        let (g, _) = split_row(r)?;
        if g.trim().is_empty() || g.trim().parse::<usize>().is_ok() { bar_of(r) } else { None }
    }).collect();
    if bars.windows(2).any(|w| w[0] != w[1]) {
        return Err(format!("gutter bars are not aligned (columns {bars:?})"));
    }
    Ok(Rendered { header_line, header_col, lines, underline: underline.ok_or("no underline row")? })
}

/// Marker check: the first '^' sits under column `col`, with tabs of the shown line copied.
fn check_marker(r: &Rendered, shown: &str, col: usize) -> Result<(), String> {
    let u: Vec<char> = r.underline.chars().collect();
    let caret = u.iter().position(|c| *c == '^').ok_or("no ^ in underline")?;
    if caret != col - 1 {
        return Err(format!("marker at column {} but reported column is {col} (underline {:?}, line {shown:?})", caret + 1, r.underline));
    }
    for (i, lc) in shown.chars().take(caret).enumerate() {
        let want = if lc == '\t' { '\t' } else { ' ' };
        if u[i] != want {
            return Err(format!("underline char {i} is {:?}, expected {want:?}", u[i]));
        }
    }
    Ok(())
}

// ------------------------------------------------------------------ per-string checks

/// A panic shows as the impossible span (MAX, MAX), which no reference equals.
fn catch_opt(f: impl FnOnce() -> Option<(usize, usize)>) -> Option<(usize, usize)> {
    catch(f).unwrap_or(Some((usize::MAX, usize::MAX)))
}

fn viol(stats: &mut Stats, class: &str, s: &str, a: usize, b: Option<usize>, what: String) {
    stats.violation_class(class, json!({"kind": class, "input": s, "offset": a, "end": b, "what": what}));
}

fn check_string(s: &str, stats: &mut Stats, pairs_too: bool) {
    let len = s.len();
    // ---------------- positions
    for o in 0..=len + 1 {
        let boundary = o <= len && s.is_char_boundary(o);
        stats.inc("evaluations");
        let p = Position::new(s, o);
        if p.is_some() != boundary {
            viol(stats, "position-new", s, o, None, format!("Position::new is_some={} but boundary={boundary}", p.is_some()));
            continue;
        }
        let Some(p) = p else { continue };
        if o > 0 {
            stats.inc("distinct_nontrivial");
        }
        let want_lc = ref_line_col(s, o);
        let (ls, le) = ref_line_of(s, o);
        match catch(|| (p.line_col(), p.line_of().to_string(), p.pos())) {
            Err(m) => viol(stats, "position-panics", s, o, None, m),
            Ok((lc, lo, pp)) => {
                if lc != want_lc {
                    viol(stats, "position-line-col", s, o, None, format!("line_col {lc:?}, reference {want_lc:?}"));
                }
                if lo != s[ls..le] {
                    viol(stats, "line-of", s, o, None, format!("line_of {lo:?}, reference {:?}", &s[ls..le]));
                }
                if pp != o {
                    viol(stats, "position-pos", s, o, None, format!("pos() {pp}"));
                }
            }
        }
        // the conversion Position -> LineColLocation
        match catch(|| LineColLocation::from(Position::new(s, o).unwrap())) {
            Ok(LineColLocation::Pos(lc)) if lc == want_lc => {}
            other => viol(stats, "line-col-location-from-position", s, o, None, format!("LineColLocation::from(position) = {other:?}, reference Pos({want_lc:?})")),
        }
        // pairs (LineIndex path)
        match catch(|| {
            let pairs = PairsBuilder::<u8>::new(s).rule(1, o, len).build();
            let pair = pairs.peek().unwrap();
            (pair.line_col(), pair.as_span().start_pos().line_col())
        }) {
            Err(m) => viol(stats, "pair-line-col-panics", s, o, None, m),
            Ok((plc, slc)) => {
                if plc != want_lc || slc != want_lc {
                    viol(stats, "pair-line-col", s, o, None, format!("Pair::line_col {plc:?} / span start {slc:?}, reference {want_lc:?}"));
                }
            }
        }
        // error from position
        // the line's text, with the terminator removed — or with CR/LF made visible when the
        // position points at one; a CR inside the line may be shown raw or as ␍, but must not
        // disappear (the columns would shift)
        let accepted = shown_forms(&s[ls..le]);
        let _shown_ref = {
            let next = s[o..].chars().next();
            if matches!(next, Some('\n') | Some('\r')) {
                visualize(&s[ls..le])
            } else {
                strip(&s[ls..le])
            }
        };
        match catch(|| {
            let e: Error<u8> = Error::new_from_pos(ErrorVariant::CustomError { message: "MSG".into() }, p);
            (format!("{e}"), e.line_col.clone(), e.location.clone(), e.line().to_string())
        }) {
            Err(m) => viol(stats, "error-from-pos-panics", s, o, None, m),
            Ok((out, lc, loc, line)) => {
                stats.outcome(&format!("pos-render:{}", if line.contains('␊') || line.contains('␍') { "visualised" } else { "plain" }));
                if lc != LineColLocation::Pos(want_lc) || loc != InputLocation::Pos(o) {
                    viol(stats, "error-line-col", s, o, None, format!("error line_col {lc:?} location {loc:?}, reference {want_lc:?}"));
                }
                if !accepted.contains(&line) {
                    viol(stats, "error-line-text", s, o, None, format!("error.line() {line:?}, accepted forms {accepted:?}"));
                }
                match parse_rendered(&out) {
                    Err(m) => viol(stats, "error-rendering-unparsable", s, o, None, format!("{m}: {out:?}")),
                    Ok(r) => {
                        if (r.header_line, r.header_col) != want_lc {
                            viol(stats, "render-header", s, o, None, format!("header {}:{}, reference {want_lc:?}", r.header_line, r.header_col));
                        }
                        if r.lines.len() != 1 || r.lines[0].0 != want_lc.0 || !accepted.contains(&r.lines[0].1) {
                            viol(stats, "render-line", s, o, None, format!("shown {:?}, accepted ({}, {accepted:?})", r.lines, want_lc.0));
                        } else if let Err(m) = check_marker(&r, &r.lines[0].1, want_lc.1) {
                            viol(stats, "render-marker", s, o, None, m);
                        }
                    }
                }
            }
        }
    }
    if !pairs_too {
        return;
    }
    // ---------------- spans: all offset pairs, ordered and unordered
    let all_lines = ref_lines(s);
    let small = s.chars().count() <= 3;
    for a in 0..=len + 1 {
        for b in 0..=len + 1 {
            stats.inc("evaluations");
            let ok = a <= b && b <= len && s.is_char_boundary(a) && s.is_char_boundary(b);
            let sp = Span::new(s, a, b);
            if sp.is_some() != ok {
                viol(stats, "span-new", s, a, Some(b), format!("Span::new is_some={} but ordered-boundaries={ok}", sp.is_some()));
                continue;
            }
            let Some(sp) = sp else { continue };
            if b > a {
                stats.inc("distinct_nontrivial");
            }
            let want: Vec<(usize, usize)> = ref_span_lines(s, a, b);
            match catch(|| {
                let l1: Vec<String> = sp.lines().map(|x| x.to_string()).collect();
                let l2: Vec<(usize, usize)> = sp.lines_span().map(|x| (x.start(), x.end())).collect();
                let l2s: Vec<String> = sp.lines_span().map(|x| x.as_str().to_string()).collect();
                (l1, l2, l2s, sp.as_str().to_string(), sp.start(), sp.end(), sp.start_pos().pos(), sp.end_pos().pos(), sp.split().0.pos(), sp.split().1.pos())
            }) {
                Err(m) => viol(stats, "span-panics", s, a, Some(b), m),
                Ok((l1, l2, l2s, st, s0, e0, sp0, ep0, sl0, sl1)) => {
                    if l2 != want {
                        viol(stats, "span-lines", s, a, Some(b), format!("lines_span {l2:?}, reference {want:?} (all lines {all_lines:?})"));
                    }
                    if l1 != l2s || l1 != want.iter().map(|(x, y)| s[*x..*y].to_string()).collect::<Vec<_>>() {
                        viol(stats, "span-lines-text", s, a, Some(b), format!("lines {l1:?} vs lines_span text {l2s:?}"));
                    }
                    if st != s[a..b] || (s0, e0, sp0, ep0, sl0, sl1) != (a, b, a, b, a, b) {
                        viol(stats, "span-accessors", s, a, Some(b), format!("as_str {st:?} start {s0} end {e0}"));
                    }
                }
            }
            // the other span constructors: sub-ranges of this span, two positions, merging
            if small {
                let n = b - a;
                for i in 0..=n + 1 {
                    for j in 0..=n + 1 {
                        stats.inc("evaluations");
                        let ok = i <= j && j <= n && s.is_char_boundary(a + i) && s.is_char_boundary(a + j);
                        let forms: Vec<(&str, Option<(usize, usize)>)> = vec![
                            ("get(i..j)", catch_opt(|| sp.get(i..j).map(|x| (x.start(), x.end())))),
                            ("get(i..=j-1)", if j >= 1 { catch_opt(|| sp.get(i..=j - 1).map(|x| (x.start(), x.end()))) } else { if ok { Some((a + i, a + j)) } else { None } }),
                        ];
                        for (name, got) in forms {
                            let want = if ok { Some((a + i, a + j)) } else { None };
                            if got != want {
                                viol(stats, "span-get", s, a, Some(b), format!("{name} with i={i} j={j} on span {a}..{b}: {got:?}, reference {want:?}"));
                            }
                        }
                        if j == n {
                            let got = catch_opt(|| sp.get(i..).map(|x| (x.start(), x.end())));
                            let want = if ok { Some((a + i, b)) } else { None };
                            if got != want {
                                viol(stats, "span-get", s, a, Some(b), format!("get({i}..) on span {a}..{b}: {got:?}, reference {want:?}"));
                            }
                        }
                        if i == 0 {
                            let got = catch_opt(|| sp.get(..j).map(|x| (x.start(), x.end())));
                            let want = if ok { Some((a, a + j)) } else { None };
                            if got != want {
                                viol(stats, "span-get", s, a, Some(b), format!("get(..{j}) on span {a}..{b}: {got:?}, reference {want:?}"));
                            }
                        }
                    }
                }
                // merge_spans with every other valid span
                for c in 0..=len {
                    for d in c..=len {
                        let Some(other) = Span::new(s, c, d) else { continue };
                        stats.inc("evaluations");
                        let got = catch_opt(|| pest::merge_spans(&sp, &other).map(|x| (x.start(), x.end())));
                        let want = if b >= c && a <= d { Some((a.min(c), b.max(d))) } else { None };
                        if got != want {
                            viol(stats, "merge-spans", s, a, Some(b), format!("merge_spans({a}..{b}, {c}..{d}) = {got:?}, reference {want:?}"));
                        }
                    }
                }
            }
            // the conversion Span -> LineColLocation
            {
                let want = (ref_line_col(s, a), ref_line_col(s, b));
                match catch(|| LineColLocation::from(sp)) {
                    Ok(LineColLocation::Span(x, y)) if (x, y) == want => {}
                    other => viol(stats, "line-col-location-from-span", s, a, Some(b), format!("LineColLocation::from(span) = {other:?}, reference Span{want:?}")),
                }
            }
            {
                // Position::span: the span between two positions in order
                let got = catch(|| {
                    let x = Position::new(s, a).unwrap().span(&Position::new(s, b).unwrap());
                    (x.start(), x.end(), x.as_str().to_string())
                });
                if got != Ok((a, b, s[a..b].to_string())) {
                    viol(stats, "position-span", s, a, Some(b), format!("Position::span gives {got:?}"));
                }
                // out of order there is no span to construct: it must not hand one out
                if a < b {
                    let got = catch(|| {
                        let x = Position::new(s, b).unwrap().span(&Position::new(s, a).unwrap());
                        (x.start(), x.end())
                    });
                    if let Ok(x) = got {
                        viol(stats, "position-span-out-of-order", s, b, Some(a), format!("Position::span of positions {b} and {a} (out of order) returns the span {x:?}"));
                    }
                }
            }
            // pairs appended to a builder out of input order (each span valid on its own): line_col
            if a < b {
                match catch(|| {
                    let top: Vec<(usize, usize)> = PairsBuilder::<u8>::new(s).rule(1, b, b).rule(2, a, a).build().map(|p| p.line_col()).collect();
                    let nested: Vec<(usize, usize)> = PairsBuilder::<u8>::new(s).rule_with(1, a, a, |c| c.rule(2, b, b)).build().flatten().map(|p| p.line_col()).collect();
                    (top, nested)
                }) {
                    Err(m) => viol(stats, "pair-line-col-panics", s, a, Some(b), m),
                    Ok((top, nested)) => {
                        let (la, lb) = (ref_line_col(s, a), ref_line_col(s, b));
                        if top != vec![lb, la] || nested != vec![la, lb] {
                            viol(stats, "pair-line-col", s, a, Some(b), format!("builder pairs out of input order: line_col {top:?} / {nested:?}, reference {:?} / {:?}", vec![lb, la], vec![la, lb]));
                        }
                    }
                }
            }
            // error from span
            let start_lc = ref_line_col(s, a);
            match catch(|| {
                let e: Error<u8> = Error::new_from_span(ErrorVariant::CustomError { message: "MSG".into() }, sp);
                (format!("{e}"), e.line_col.clone(), e.location.clone())
            }) {
                Err(m) => viol(stats, "error-from-span-panics", s, a, Some(b), m),
                Ok((out, lc, loc)) => {
                    if loc != InputLocation::Span((a, b)) {
                        viol(stats, "error-span-location", s, a, Some(b), format!("location {loc:?}"));
                    }
                    let LineColLocation::Span(slc, _elc) = lc else {
                        viol(stats, "error-span-line-col", s, a, Some(b), "line_col is not a Span".to_string());
                        continue;
                    };
                    if slc != start_lc {
                        viol(stats, "error-span-line-col", s, a, Some(b), format!("start line_col {slc:?}, reference {start_lc:?}"));
                    }
                    match parse_rendered(&out) {
                        Err(m) => viol(stats, "error-rendering-unparsable", s, a, Some(b), format!("{m}: {out:?}")),
                        Ok(r) => {
                            stats.outcome(&format!("span-render:{}lines", r.lines.len()));
                            if (r.header_line, r.header_col) != start_lc {
                                viol(stats, "render-header", s, a, Some(b), format!("header {}:{}, reference {start_lc:?}", r.header_line, r.header_col));
                            }
                            // the first shown line must be the line containing the start offset
                            let (ls, le) = ref_line_of(s, a);
                            let forms = shown_forms(&s[ls..le]);
                            let (vis, pl) = (forms[0].clone(), forms[1].clone());
                            let _ = (&vis, &pl);
                            match r.lines.first() {
                                Some((n, text)) if *n == start_lc.0 && forms.contains(text) => {
                                    // single-line spans: the marker starts under the start column
                                    if r.lines.len() == 1 {
                                        if let Err(m) = check_marker(&r, text, start_lc.1) {
                                            viol(stats, "render-marker", s, a, Some(b), format!("{m}; rendering {out:?}"));
                                        }
                                    }
                                }
                                other => viol(stats, "render-line", s, a, Some(b), format!("first shown line {other:?}, reference ({}, {pl:?} or {vis:?}); rendering {out:?}", start_lc.0)),
                            }
                        }
                    }
                }
            }
        }
    }
}

fn all_strings(max: usize) -> Vec<String> {
    vcore::strings_upto(&ALPHA, max)
}

fn main() {
    let cfg = Cfg::from_env();
    vcore::quiet_panics();
    if let Some(p) = &cfg.replay {
        let case = verdict::load_replay(p);
        let s = case["input"].as_str().unwrap();
        let mut st = Stats::new();
        check_string(s, &mut st, true);
        for v in &st.violations {
            println!("{v:#}");
        }
        if st.get("violations") > 0 {
            println!("VIOLATION property=C10 replay={p}");
            std::process::exit(1)
        }
        println!("replay: property holds on {s:?}");
        std::process::exit(0)
    }
    let (l_all, l_pos) = if cfg.quick() { (6, 7) } else { (7, 8) };
    let strings = all_strings(l_pos);
    let jobs = cfg.jobs;
    let chunks: Vec<Vec<&String>> = (0..jobs).map(|j| strings.iter().skip(j).step_by(jobs).collect()).collect();
    let mut stats = Stats::new();
    // many-line texts: line numbers that change their number of digits inside one span
    let mut many: Vec<String> = [8usize, 9, 10, 11, 99, 100, 101].iter().flat_map(|n| vec!["x\n".repeat(*n), format!("{}é", "a\n".repeat(*n)), format!("\r\n{}", "\n".repeat(*n))]).collect();
    // code points that tools like to treat specially (byte order mark, NUL, line / paragraph separator,
    // NEL, zero-width joiner) are ordinary characters for line/column purposes: in front of, inside and
    // at the end of every short string
    for sp in ['\u{feff}', '\0', '\u{2028}', '\u{2029}', '\u{85}', '\u{200d}'] {
        for base in all_strings(3) {
            many.push(format!("{sp}{base}"));
            many.push(format!("{base}{sp}"));
            many.push(format!("{base}{sp}{base}"));
        }
    }
    let many_parts: Vec<Stats> = std::thread::scope(|sc| {
        let hs: Vec<_> = many
            .iter()
            .map(|s| {
                sc.spawn(move || {
                    let mut st = Stats::new();
                    check_string(s, &mut st, true);
                    st.inc("many_line_strings");
                    st
                })
            })
            .collect();
        hs.into_iter().map(|h| h.join().unwrap()).collect()
    });
    for p in many_parts {
        stats.merge(p);
    }
    let parts: Vec<Stats> = std::thread::scope(|sc| {
        let hs: Vec<_> = chunks
            .into_iter()
            .map(|chunk| {
                sc.spawn(move || {
                    let mut st = Stats::new();
                    for s in chunk {
                        let n = s.chars().count();
                        check_string(s, &mut st, n <= l_all);
                        st.inc("strings");
                    }
                    st
                })
            })
            .collect();
        hs.into_iter().map(|h| h.join().unwrap()).collect()
    });
    for p in parts {
        stats.merge(p);
    }
    stats.max("string_length_all_offset_pairs", l_all as u64);
    stats.max("string_length_all_offsets", l_pos as u64);
    for s in ["a\r\né\n", "😀\t\n\na", ""] {
        let v: Value = json!({"input": s, "offsets": (0..=s.len()).filter(|o| s.is_char_boundary(*o)).map(|o| json!({"offset": o, "line_col": ref_line_col(s, o)})).collect::<Vec<_>>()});
        stats.sample(|| v);
    }
    let mut cov = vcore::Map::new();
    cov.insert("rule".into(), json!("complete enumeration of all strings over {a, é, 😀, \\n, \\r, \\t} up to the stated lengths; for each string every byte offset 0..=len+1 (Position::new, line_col via Position / Pair+LineIndex / Error, line_of, rendered Error parsed back) and, up to the smaller length, every offset pair including unordered and non-boundary ones (Span::new, lines, lines_span, accessors, rendered Error parsed back). One evaluation = one (string, offset) or (string, offset pair); non-trivial = offset > 0 / non-empty span"));
    cov.insert("exhaustive".into(), json!(true));
    verdict::conclude(verdict::Report {
        property: "C10",
        level: "exploration",
        cfg: &cfg,
        stats,
        coverage: cov,
        assumptions: vec![
            "lines()/lines_span(): the lines meeting the closed interval [start, end], an offset at end of input belonging to no line (DESIGN §3 C10)".into(),
            "for multi-line spans only header, first shown line and absence of panics are judged; the marker column is judged for positions and single-line spans".into(),
        ],
    })
}
