//! Shared types of the compiled C02 corpus.
use pest::error::{Error, ErrorVariant, InputLocation};
use pest::iterators::Pairs;
use pest::RuleType;

pub struct Entry {
    pub grammar: &'static str,
    pub class: &'static str,
    pub alphabet: &'static str,
    pub rules: &'static [&'static str],
    pub run: fn(&str, &str) -> Out,
}

#[derive(PartialEq, Eq, Debug, Clone)]
pub enum Out {
    Ok(Vec<(String, usize, usize, Option<String>)>),
    Err { pos: usize, positives: Vec<String>, negatives: Vec<String>, custom: Option<String> },
    Panic(String),
    NoSuchRule,
}

pub fn name_of<R: RuleType>(r: &R) -> String {
    format!("{r:?}").trim_matches('"').to_string()
}

pub fn norm<R: RuleType>(r: Result<Pairs<'_, R>, Error<R>>) -> Out {
    match r {
        Ok(p) => Out::Ok(p.flatten().map(|q| (name_of(&q.as_rule()), q.as_span().start(), q.as_span().end(), q.as_node_tag().map(|s| s.to_string()))).collect()),
        Err(e) => {
            let pos = match e.location {
                InputLocation::Pos(p) => p,
                InputLocation::Span((a, _)) => a,
            };
            match e.variant {
                ErrorVariant::ParsingError { positives, negatives } => {
                    let mut p: Vec<String> = positives.iter().map(name_of).collect();
                    let mut n: Vec<String> = negatives.iter().map(name_of).collect();
                    p.sort();
                    n.sort();
                    Out::Err { pos, positives: p, negatives: n, custom: None }
                }
                ErrorVariant::CustomError { message } => Out::Err { pos, positives: vec![], negatives: vec![], custom: Some(message) },
            }
        }
    }
}

pub fn run_generated<P: pest::Parser<R>, R: RuleType>(rule: Option<R>, input: &str) -> Out {
    let Some(rule) = rule else { return Out::NoSuchRule };
    vcore::catch(|| norm(P::parse(rule, input))).unwrap_or_else(Out::Panic)
}
