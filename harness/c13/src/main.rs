//! C13 — operator-precedence parsers build the precedence-correct tree.
//! All operator tables (<= 3 levels, <= 4 operators, each prefix / postfix / infix-L / infix-R)
//! x all well-formed token sequences up to K tokens; PrattParser, ConstPrattParser and (where
//! applicable) PrecClimber against an independent shunting-yard with the binding powers of the
//! statement.
#![allow(deprecated)]
use pest::iterators::{Pairs, PairsBuilder};
use pest::pratt_parser::{Assoc, ConstPrattParser, Op, PrattParser};
use pest::prec_climber::{self, PrecClimber};
use vcore::{catch, json, verdict, Cfg, Stats, Value};

#[derive(Clone, Copy, PartialEq, Eq, Debug, PartialOrd, Ord)]
enum Kind {
    Prefix,
    Postfix,
    InfixL,
    InfixR,
}
const KINDS: [Kind; 4] = [Kind::Prefix, Kind::Postfix, Kind::InfixL, Kind::InfixR];

/// An operator: rule id (1-based), kind, level (1 = loosest).
#[derive(Clone, Copy, Debug, PartialEq, Eq, PartialOrd, Ord)]
struct OpDef {
    level: u8,
    kind: Kind,
}

type Table = Vec<OpDef>; // op with rule id i+1 is table[i]

fn tables(max_ops: usize, max_levels: u8) -> Vec<Table> {
    // multisets of (level, kind) in non-decreasing order, levels contiguous from 1
    let universe: Vec<OpDef> = (1..=max_levels).flat_map(|l| KINDS.iter().map(move |k| OpDef { level: l, kind: *k })).collect();
    let mut out = vec![];
    fn rec(universe: &[OpDef], from: usize, cur: &mut Vec<OpDef>, max: usize, out: &mut Vec<Table>) {
        if !cur.is_empty() {
            let mut levels: Vec<u8> = cur.iter().map(|o| o.level).collect();
            levels.dedup();
            if levels.iter().enumerate().all(|(i, l)| *l as usize == i + 1) {
                out.push(cur.clone());
            }
        }
        if cur.len() == max {
            return;
        }
        for i in from..universe.len() {
            // at most two identical operators
            if cur.iter().filter(|o| **o == universe[i]).count() >= 2 {
                continue;
            }
            cur.push(universe[i]);
            rec(universe, i, cur, max, out);
            cur.pop();
        }
    }
    rec(&universe, 0, &mut vec![], max_ops, &mut out);
    out
}

/// A token: 0 = operand, i = operator with rule id i.
type Seq = Vec<u8>;

/// All well-formed sequences `prefix* operand postfix* (infix prefix* operand postfix*)*` of
/// at most k tokens.
fn sequences(t: &Table, k: usize) -> Vec<Seq> {
    let ids = |kind: &dyn Fn(Kind) -> bool| -> Vec<u8> { t.iter().enumerate().filter(|(_, o)| kind(o.kind)).map(|(i, _)| i as u8 + 1).collect() };
    let pre = ids(&|k| k == Kind::Prefix);
    let post = ids(&|k| k == Kind::Postfix);
    let inf = ids(&|k| matches!(k, Kind::InfixL | Kind::InfixR));
    let mut out = vec![];
    // state machine: state A = expecting operand (after start / prefix / infix), B = after operand/postfix
    fn rec(cur: &mut Seq, state_b: bool, k: usize, pre: &[u8], post: &[u8], inf: &[u8], out: &mut Vec<Seq>) {
        if state_b {
            out.push(cur.clone());
        }
        if cur.len() == k {
            return;
        }
        if !state_b {
            cur.push(0);
            rec(cur, true, k, pre, post, inf, out);
            cur.pop();
            for p in pre {
                cur.push(*p);
                rec(cur, false, k, pre, post, inf, out);
                cur.pop();
            }
        } else {
            for p in post {
                cur.push(*p);
                rec(cur, true, k, pre, post, inf, out);
                cur.pop();
            }
            for p in inf {
                cur.push(*p);
                rec(cur, false, k, pre, post, inf, out);
                cur.pop();
            }
        }
    }
    rec(&mut vec![], false, k, &pre, &post, &inf, &mut out);
    out
}

fn label(seq: &Seq, i: usize) -> String {
    if seq[i] == 0 {
        format!("n{i}")
    } else {
        format!("o{}@{i}", seq[i])
    }
}

/// The reference: classical shunting-yard with the statement's binding powers: an operator of
/// level p binds its left with power 2p, its right with 2p (left-assoc infix) or 2p-1
/// (right-assoc infix, prefix).
fn shunting_yard(t: &Table, seq: &Seq) -> String {
    enum Pending {
        Prefix(String, u32),
        Infix(String, u32),
    }
    let mut out: Vec<String> = vec![];
    let mut ops: Vec<Pending> = vec![];
    fn reduce(out: &mut Vec<String>, p: Pending) {
        match p {
            Pending::Prefix(o, _) => {
                let x = out.pop().unwrap();
                out.push(format!("({o} {x})"));
            }
            Pending::Infix(o, _) => {
                let r = out.pop().unwrap();
                let l = out.pop().unwrap();
                out.push(format!("({l} {o} {r})"));
            }
        }
    }
    fn rp(p: &Pending) -> u32 {
        match p {
            Pending::Prefix(_, r) | Pending::Infix(_, r) => *r,
        }
    }
    for (i, tok) in seq.iter().enumerate() {
        if *tok == 0 {
            out.push(label(seq, i));
            continue;
        }
        let def = t[*tok as usize - 1];
        let p = def.level as u32;
        match def.kind {
            Kind::Prefix => ops.push(Pending::Prefix(label(seq, i), 2 * p - 1)),
            Kind::Postfix => {
                while ops.last().map_or(false, |top| rp(top) >= 2 * p) {
                    let top = ops.pop().unwrap();
                    reduce(&mut out, top);
                }
                let x = out.pop().unwrap();
                out.push(format!("({x} {})", label(seq, i)));
            }
            Kind::InfixL | Kind::InfixR => {
                while ops.last().map_or(false, |top| rp(top) >= 2 * p) {
                    let top = ops.pop().unwrap();
                    reduce(&mut out, top);
                }
                ops.push(Pending::Infix(label(seq, i), if def.kind == Kind::InfixL { 2 * p } else { 2 * p - 1 }));
            }
        }
    }
    while let Some(top) = ops.pop() {
        reduce(&mut out, top);
    }
    assert_eq!(out.len(), 1);
    out.pop().unwrap()
}

fn make_op(id: u8, k: Kind) -> Op<u8> {
    match k {
        Kind::Prefix => Op::prefix(id),
        Kind::Postfix => Op::postfix(id),
        Kind::InfixL => Op::infix(id, Assoc::Left),
        Kind::InfixR => Op::infix(id, Assoc::Right),
    }
}

fn build_pairs<'i>(input: &'i str, seq: &Seq) -> Pairs<'i, u8> {
    let mut b = PairsBuilder::new(input);
    for (i, t) in seq.iter().enumerate() {
        b = b.rule(*t, i, i + 1);
    }
    b.build()
}

fn pratt(t: &Table) -> PrattParser<u8> {
    pratt_from(t, PrattParser::new())
}

/// The same table on a parser obtained from the `Default` entry point.
fn pratt_default(t: &Table) -> PrattParser<u8> {
    pratt_from(t, PrattParser::default())
}

fn pratt_from(t: &Table, mut p: PrattParser<u8>) -> PrattParser<u8> {
    let max = t.iter().map(|o| o.level).max().unwrap();
    for l in 1..=max {
        let mut chain: Option<Op<u8>> = None;
        for (i, o) in t.iter().enumerate() {
            if o.level == l {
                let op = make_op(i as u8 + 1, o.kind);
                chain = Some(match chain {
                    None => op,
                    Some(c) => c | op,
                });
            }
        }
        p = p.op(chain.unwrap());
    }
    p
}

macro_rules! run_map {
    ($parser:expr, $pairs:expr) => {{
        $parser
            .map_primary(|p: pest::iterators::Pair<'_, u8>| format!("n{}", p.as_span().start()))
            .map_prefix(|o: pest::iterators::Pair<'_, u8>, x: String| format!("(o{}@{} {x})", o.as_rule(), o.as_span().start()))
            .map_postfix(|x: String, o: pest::iterators::Pair<'_, u8>| format!("({x} o{}@{})", o.as_rule(), o.as_span().start()))
            .map_infix(|l: String, o: pest::iterators::Pair<'_, u8>, r: String| format!("({l} o{}@{} {r})", o.as_rule(), o.as_span().start()))
            .parse($pairs)
    }};
}

fn const_entries<const N: usize>(t: &Table) -> [(Op<u8>, bool); N] {
    let mut prev = 0u8;
    let mut idx = 0;
    [(); N].map(|_| {
        let o = t[idx];
        let e = (make_op(idx as u8 + 1, o.kind), o.level != prev);
        prev = o.level;
        idx += 1;
        e
    })
}

fn run_const(t: &Table, pairs: Pairs<'_, u8>) -> String {
    match t.len() {
        1 => {
            let p: ConstPrattParser<u8, 1> = ConstPrattParser::new_const(const_entries::<1>(t));
            run_map!(p, pairs)
        }
        2 => {
            let p: ConstPrattParser<u8, 2> = ConstPrattParser::new_const(const_entries::<2>(t));
            run_map!(p, pairs)
        }
        3 => {
            let p: ConstPrattParser<u8, 3> = ConstPrattParser::new_const(const_entries::<3>(t));
            run_map!(p, pairs)
        }
        4 => {
            let p: ConstPrattParser<u8, 4> = ConstPrattParser::new_const(const_entries::<4>(t));
            run_map!(p, pairs)
        }
        5 => {
            let p: ConstPrattParser<u8, 5> = ConstPrattParser::new_const(const_entries::<5>(t));
            run_map!(p, pairs)
        }
        6 => {
            let p: ConstPrattParser<u8, 6> = ConstPrattParser::new_const(const_entries::<6>(t));
            run_map!(p, pairs)
        }
        30 => {
            let p: ConstPrattParser<u8, 30> = ConstPrattParser::new_const(const_entries::<30>(t));
            run_map!(p, pairs)
        }
        70 => {
            let p: ConstPrattParser<u8, 70> = ConstPrattParser::new_const(const_entries::<70>(t));
            run_map!(p, pairs)
        }
        _ => unreachable!(),
    }
}

/// Wide levels: 3..5 infix operators of one associativity on one level (what `a | b | c | ...`
/// chains in a PrecClimber table and `.op(a | b | c)` in a PrattParser build), alone and next to a
/// second level.
fn wide_tables() -> Vec<Table> {
    let mut out = vec![];
    for kind in [Kind::InfixL, Kind::InfixR] {
        let other = if kind == Kind::InfixL { Kind::InfixR } else { Kind::InfixL };
        for n in 3..=5usize {
            out.push(vec![OpDef { level: 1, kind }; n]);
            let mut t = vec![OpDef { level: 1, kind }; n];
            t.push(OpDef { level: 2, kind: other });
            out.push(t);
            let mut t = vec![OpDef { level: 1, kind: other }];
            t.extend(vec![OpDef { level: 2, kind }; n]);
            out.push(t);
        }
    }
    out
}

/// Tall tables: 30 and 70 levels of one infix operator each (alternating associativity), so that
/// precedence values leave every small integer width.
fn tall_tables() -> Vec<Table> {
    [30u8, 70]
        .into_iter()
        .map(|n| (1..=n).map(|l| OpDef { level: l, kind: if l % 3 == 0 { Kind::InfixR } else { Kind::InfixL } }).collect())
        .collect()
}

/// Tables written with the `prec_climber!` macro (feature const_prec_climber): the macro numbers the
/// levels itself, so it is a separate way into PrecClimber.
mod macro_tables {
    use super::*;
    use pest::prec_climber;
    #[allow(non_camel_case_types)]
    #[derive(Clone, Copy, Debug, Eq, Hash, Ord, PartialEq, PartialOrd)]
    pub enum Rule {
        n,
        o1,
        o2,
        o3,
        o4,
        o5,
        o6,
    }
    const RULES: [Rule; 7] = [Rule::n, Rule::o1, Rule::o2, Rule::o3, Rule::o4, Rule::o5, Rule::o6];
    static T1: PrecClimber<Rule> = prec_climber![L o1 | o2, L o3 | o4, R o5 | o6];
    static T2: PrecClimber<Rule> = prec_climber![R o1 | o2 | o3, L o4, L o5 | o6];
    static T3: PrecClimber<Rule> = prec_climber![L o1, R o2, L o3 | o4 | o5 | o6];

    pub fn check(stats: &mut Stats) {
        let l = |level: u8, kind: Kind| OpDef { level, kind };
        let tables: [(&PrecClimber<Rule>, Table); 3] = [
            (&T1, vec![l(1, Kind::InfixL), l(1, Kind::InfixL), l(2, Kind::InfixL), l(2, Kind::InfixL), l(3, Kind::InfixR), l(3, Kind::InfixR)]),
            (&T2, vec![l(1, Kind::InfixR), l(1, Kind::InfixR), l(1, Kind::InfixR), l(2, Kind::InfixL), l(3, Kind::InfixL), l(3, Kind::InfixL)]),
            (&T3, vec![l(1, Kind::InfixL), l(2, Kind::InfixR), l(3, Kind::InfixL), l(3, Kind::InfixL), l(3, Kind::InfixL), l(3, Kind::InfixL)]),
        ];
        for (pc, t) in tables.iter() {
            for seq in sequences(t, 7) {
                let input: String = seq.iter().map(|t| if *t == 0 { 'n' } else { 'o' }).collect();
                let want = shunting_yard(t, &seq);
                stats.inc("evaluations");
                stats.inc("distinct_nontrivial");
                stats.inc("macro_table_evaluations");
                let got = catch(|| {
                    let mut b = PairsBuilder::new(&input);
                    for (i, tk) in seq.iter().enumerate() {
                        b = b.rule(RULES[*tk as usize], i, i + 1);
                    }
                    pc.climb(b.build(), |p| format!("n{}", p.as_span().start()), |l: String, o, r: String| format!("({l} o{}@{} {r})", RULES.iter().position(|x| *x == o.as_rule()).unwrap(), o.as_span().start()))
                });
                if got.as_deref() != Ok(want.as_str()) {
                    stats.violation_class("prec-climber-macro-table-differs", json!({"kind": "prec-climber-macro-table-differs", "table": table_json(t), "sequence": seq.iter().enumerate().map(|(i, _)| label(&seq, i)).collect::<Vec<_>>(), "expected(shunting-yard)": want, "got": got.clone().unwrap_or_else(|p| format!("PANIC: {p}"))}));
                }
            }
        }
    }
}

/// PrecClimber applies to infix-only tables whose levels each have a single associativity.
fn climber(t: &Table) -> Option<PrecClimber<u8>> {
    climber_shaped(t, 0)
}

/// `shape` says how the `|` chain of one level is associated: 0 = `((a | b) | c) | d`,
/// 1 = `a | (b | (c | d))`, 2 = `(a | b) | (c | d)` (every way a user can write the table).
fn climber_shaped(t: &Table, shape: u8) -> Option<PrecClimber<u8>> {
    if t.iter().any(|o| matches!(o.kind, Kind::Prefix | Kind::Postfix)) {
        return None;
    }
    let max = t.iter().map(|o| o.level).max().unwrap();
    let mut levels = vec![];
    for l in 1..=max {
        let kinds: Vec<Kind> = t.iter().filter(|o| o.level == l).map(|o| o.kind).collect();
        if kinds.iter().any(|k| *k != kinds[0]) {
            return None;
        }
        let ops: Vec<prec_climber::Operator<u8>> = t
            .iter()
            .enumerate()
            .filter(|(_, o)| o.level == l)
            .map(|(i, o)| prec_climber::Operator::new(i as u8 + 1, if o.kind == Kind::InfixL { prec_climber::Assoc::Left } else { prec_climber::Assoc::Right }))
            .collect();
        fn left(mut v: Vec<prec_climber::Operator<u8>>) -> prec_climber::Operator<u8> {
            let first = v.remove(0);
            v.into_iter().fold(first, |c, o| c | o)
        }
        fn right(mut v: Vec<prec_climber::Operator<u8>>) -> prec_climber::Operator<u8> {
            let last = v.pop().unwrap();
            v.into_iter().rev().fold(last, |c, o| o | c)
        }
        let chain = match shape {
            0 => left(ops),
            1 => right(ops),
            _ => {
                let mut a = ops;
                let b = a.split_off(a.len() / 2);
                if a.is_empty() {
                    left(b)
                } else {
                    left(a) | left(b)
                }
            }
        };
        levels.push(chain);
    }
    Some(PrecClimber::new(levels))
}

/// The same table through `PrecClimber::new_const` (feature const_prec_climber), whose entries
/// "don't have to be ordered in any way": natural and reversed order.
fn const_climbers(t: &Table) -> Vec<PrecClimber<u8>> {
    if climber(t).is_none() {
        return vec![];
    }
    let entries: Vec<(u8, u32, prec_climber::Assoc)> = t.iter().enumerate().map(|(i, o)| (i as u8 + 1, o.level as u32, if o.kind == Kind::InfixL { prec_climber::Assoc::Left } else { prec_climber::Assoc::Right })).collect();
    let mut rev = entries.clone();
    rev.reverse();
    let mut rot = entries.clone();
    rot.rotate_left(1);
    [entries, rev, rot].into_iter().map(|e| PrecClimber::new_const(Box::leak(e.into_boxed_slice()))).collect()
}

fn table_json(t: &Table) -> Value {
    json!(t.iter().enumerate().map(|(i, o)| format!("o{}:{:?}@level{}", i + 1, o.kind, o.level)).collect::<Vec<_>>())
}

fn check_table(t: &Table, k: usize, stats: &mut Stats) {
    let pp = pratt(t);
    let ppd = pratt_default(t);
    let pc = climber(t);
    let mut pcc = const_climbers(t);
    let n_const = pcc.len();
    pcc.extend([1u8, 2].into_iter().filter_map(|sh| climber_shaped(t, sh)));
    let seqs = sequences(t, k);
    stats.inc("tables");
    for seq in &seqs {
        let input: String = seq.iter().map(|t| if *t == 0 { 'n' } else { (b'a' + (*t % 24)) as char }).collect();
        let want = shunting_yard(t, seq);
        stats.inc("evaluations");
        if seq.len() > 1 {
            stats.inc("distinct_nontrivial");
        }
        let got = catch(|| run_map!(pp, build_pairs(&input, seq)));
        let gotc = catch(|| run_const(t, build_pairs(&input, seq)));
        let report = |stats: &mut Stats, which: &str, got: &Result<String, String>| {
            stats.violation_class(which, json!({"kind": which, "table": table_json(t), "sequence": seq.iter().enumerate().map(|(i, _)| label(seq, i)).collect::<Vec<_>>(), "expected(shunting-yard)": want, "got": got.clone().unwrap_or_else(|p| format!("PANIC: {p}"))}));
        };
        if got.as_deref() != Ok(want.as_str()) {
            report(stats, "pratt-differs", &got);
        }
        let gotd = catch(|| run_map!(ppd, build_pairs(&input, seq)));
        if gotd.as_deref() != Ok(want.as_str()) {
            report(stats, "pratt-from-default-differs", &gotd);
        }
        if gotc.as_deref() != Ok(want.as_str()) {
            report(stats, "const-pratt-differs", &gotc);
        }
        if let Some(pc) = &pc {
            let gotp = catch(|| {
                pc.climb(
                    build_pairs(&input, seq),
                    |p| format!("n{}", p.as_span().start()),
                    |l: String, o, r: String| format!("({l} o{}@{} {r})", o.as_rule(), o.as_span().start()),
                )
            });
            stats.inc("prec_climber_evaluations");
            if gotp.as_deref() != Ok(want.as_str()) {
                report(stats, "prec-climber-differs", &gotp);
            }
        }
        for (ci, pc) in pcc.iter().enumerate() {
            let gotp = catch(|| {
                pc.climb(
                    build_pairs(&input, seq),
                    |p| format!("n{}", p.as_span().start()),
                    |l: String, o, r: String| format!("({l} o{}@{} {r})", o.as_rule(), o.as_span().start()),
                )
            });
            stats.inc("prec_climber_evaluations");
            if gotp.as_deref() != Ok(want.as_str()) {
                let class = if ci < n_const { ["const-prec-climber-differs", "const-prec-climber-reversed-table-differs", "const-prec-climber-rotated-table-differs"][ci] } else { ["prec-climber-right-nested-chain-differs", "prec-climber-balanced-chain-differs"][ci - n_const] };
                report(stats, class, &gotp);
            }
        }
        // vacuity control: shape classes of the expected tree
        if seq.len() == k {
            let depth = want.chars().fold((0, 0), |(d, m), c| if c == '(' { (d + 1, m.max(d + 1)) } else if c == ')' { (d - 1, m) } else { (d, m) }).1;
            stats.outcome(&format!("depth{depth}:{}", if want.starts_with("((") { "left-heavy" } else { "other" }));
        }
    }
    if stats.samples.len() < 4 && t.len() >= 3 {
        if let Some(seq) = seqs.iter().find(|s| s.len() == k.min(6)) {
            stats.sample(|| json!({"table": table_json(t), "sequence": seq.iter().enumerate().map(|(i, _)| label(seq, i)).collect::<Vec<_>>(), "tree": shunting_yard(t, seq)}));
        }
    }
}

fn main() {
    let cfg = Cfg::from_env();
    vcore::quiet_panics();
    if let Some(p) = &cfg.replay {
        let case = verdict::load_replay(p);
        // table and sequence are reconstructed from their printed forms
        let t: Table = case["table"]
            .as_array()
            .unwrap()
            .iter()
            .map(|s| {
                let s = s.as_str().unwrap();
                let (_, rest) = s.split_once(':').unwrap();
                let (k, l) = rest.split_once("@level").unwrap();
                OpDef { level: l.parse().unwrap(), kind: KINDS.into_iter().find(|x| format!("{x:?}") == k).unwrap() }
            })
            .collect();
        let seq: Seq = case["sequence"].as_array().unwrap().iter().map(|s| { let s = s.as_str().unwrap(); if s.starts_with('n') { 0 } else { s[1..].split('@').next().unwrap().parse().unwrap() } }).collect();
        let mut st = Stats::new();
        let input: String = seq.iter().map(|t| if *t == 0 { 'n' } else { (b'a' + (*t % 24)) as char }).collect();
        let want = shunting_yard(&t, &seq);
        let got = catch(|| run_map!(pratt(&t), build_pairs(&input, &seq)));
        let gotc = catch(|| run_const(&t, build_pairs(&input, &seq)));
        println!("table {:?}\nsequence {:?}\nexpected {want}\npratt    {got:?}\nconst    {gotc:?}", case["table"], case["sequence"]);
        let mut bad = got.as_deref() != Ok(want.as_str()) || gotc.as_deref() != Ok(want.as_str());
        if let Some(pc) = climber(&t) {
            let gotp = catch(|| pc.climb(build_pairs(&input, &seq), |p| format!("n{}", p.as_span().start()), |l: String, o, r: String| format!("({l} o{}@{} {r})", o.as_rule(), o.as_span().start())));
            println!("climber  {gotp:?}");
            bad |= gotp.as_deref() != Ok(want.as_str());
        }
        let _ = &mut st;
        if bad {
            println!("VIOLATION property=C13 replay={p}");
            std::process::exit(1)
        }
        println!("replay: property holds on this case");
        std::process::exit(0)
    }
    let k = cfg.opt("k").and_then(|s| s.parse().ok()).unwrap_or(if cfg.quick() { 9 } else { 12 });
    let mut ts = tables(4, 3);
    let n_plain = ts.len();
    ts.extend(wide_tables());
    let n_wide = ts.len();
    ts.extend(tall_tables());
    let jobs = cfg.jobs;
    let mut stats = Stats::new();
    let parts: Vec<Stats> = std::thread::scope(|sc| {
        let hs: Vec<_> = (0..jobs)
            .map(|j| {
                let ts = &ts;
                sc.spawn(move || {
                    let mut st = Stats::new();
                    for (ti, t) in ts.iter().enumerate().skip(j).step_by(jobs) {
                        // small tables get longer sequences, the wide ones shorter
                        let kk = if ti >= n_wide { 5 } else if ti >= n_plain { 7 } else if t.len() <= 2 { k + 2 } else { k };
                        check_table(t, kk, &mut st);
                        st.max("max_sequence_length", kk as u64);
                    }
                    st
                })
            })
            .collect();
        hs.into_iter().map(|h| h.join().unwrap()).collect()
    });
    for p in parts {
        stats.merge(p);
    }
    macro_tables::check(&mut stats);
    let mut cov = vcore::Map::new();
    cov.insert("rule".into(), json!("tables = multisets of <= 4 operators over {prefix, postfix, infix-left, infix-right} x levels 1..3 (levels contiguous, at most two identical operators), plus wide tables with 3..5 infix operators of one associativity on one level, alone and beside a second level (sequences of at most 7 tokens), and tall tables of 30 and 70 single-operator levels (at most 5 tokens; PrecClimber chains built left-nested, right-nested and balanced; PrecClimber::new_const with natural, reversed and rotated tables; three tables written with the prec_climber! macro); for each table every well-formed sequence prefix* operand postfix* (infix prefix* operand postfix*)* of at most K tokens (K+2 for tables with <= 2 operators), fed as flat Pairs built with PairsBuilder; PrattParser, ConstPrattParser<N> and (infix-only, one associativity per level) PrecClimber must return exactly the S-expression of an independent shunting-yard with the statement's binding powers; labels carry token positions, so equality implies every operator applied once and operand order preserved. Non-trivial: sequences of more than one token"));
    cov.insert("exhaustive".into(), json!(true));
    verdict::conclude(verdict::Report {
        property: "C13",
        level: "exploration",
        cfg: &cfg,
        stats,
        coverage: cov,
        assumptions: vec!["ill-formed sequences are out of scope (they panic by contract)".into(), "bounded: <= 3 levels, <= 4 operators, sequence length".into()],
    })
}
