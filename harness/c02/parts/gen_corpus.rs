// Corpus generator for C02, shared by build.rs (which emits one derived parser per grammar) —
// deterministic; `extras` and `thorough` select the feature configuration and the size.
pub struct G {
    pub text: String,
    pub alphabet: String,
    pub class: &'static str,
}

fn alpha_of(text: &str) -> String {
    let mut a: Vec<char> = vec!['a', 'b'];
    // ANY must step over every UTF-8 width
    if text.contains("ANY") {
        a.push('\u{1f600}');
    }
    for c in [' ', '#', 'é', '1', 'A', '\n', 'x'] {
        if text.contains(c) || c == 'x' {
            a.push(c);
        }
    }
    a.truncate(5);
    a.into_iter().collect()
}

pub fn corpus(extras: bool, thorough: bool) -> Vec<G> {
    let mut v: Vec<G> = vec![];
    let mut extra: Vec<G> = vec![];
    let mut push = |text: String, class: &'static str| {
        let alphabet = alpha_of(&text);
        v.push(G { text, alphabet, class });
    };
    let types = ["", "_", "@", "$", "!"];
    // (i) operator forms x rule types x WHITESPACE/COMMENT types x caller types
    let mut forms: Vec<&str> = vec![
        "\"a\" ~ \"a\"", "\"a\" | \"b\"", "\"a\"?", "\"a\"*", "\"a\"+", "\"a\"{2}", "\"a\"{1,}", "\"a\"{,2}", "\"a\"{1,2}", "&\"a\" ~ ANY", "!\"b\" ~ ANY", "PUSH(\"a\") ~ POP", "x ~ x", "(x | \"b\")*", "(x ~ \"b\")+",
        "x? ~ \"a\"", "^\"a\" ~ 'a'..'b'",
        // every container construct around a sequence and around a repetition (the implicit skip inside it)
        "PUSH(x ~ x) ~ POP?", "PUSH(x*) ~ \"b\"?", "PUSH(x ~ \"b\")? ~ PEEK?", "&(x ~ x) ~ ANY*", "!(x ~ \"b\") ~ ANY*", "(x ~ x)?", "(x ~ x){2}", "(x ~ x){1,2}", "((x ~ x) | x)+", "&(x*) ~ !(x+ ~ \"b\") ~ ANY*",
        // a bare popping matcher directly under ?, *, | after two pushes, then a reader of the stack
        "PUSH(x) ~ PUSH(\"b\") ~ POP? ~ PEEK ~ ANY?", "PUSH(x) ~ PUSH(\"b\") ~ (POP | x) ~ POP? ~ PEEK_ALL?", "PUSH(x) ~ PUSH(\"b\") ~ POP* ~ PEEK_ALL? ~ ANY*", "PUSH(x) ~ PUSH(\"b\") ~ POP_ALL? ~ PEEK[..]? ~ ANY*",
        "PUSH(x) ~ PUSH(\"b\") ~ (POP_ALL | \"b\") ~ DROP? ~ PEEK?", "SOI ~ x* ~ EOI", "(x ~ \"b\") | x", "(x ~ \"b\")* ~ x", "PUSH(x) ~ (PEEK | x)*", "(!(\"a\" | \"b\") ~ ANY)*", "x{2,3}",
        // a sequence whose head matches and whose tail (with nullable parts) fails, the failure absorbed
        // by ?, *, | and followed by a reader of the position (the generator must rewind)
        "(\"a\" ~ x+ ~ \"b\"?)? ~ ANY*", "(\"a\" ~ \"b\"+ ~ x? | x) ~ ANY*", "(\"a\" ~ (x ~ \"b\" | \"b\") | ANY ~ x) ~ ANY?", "(\"a\" ~ (x ~ (\"b\" ~ x)* ~ \"a\" | \"a\") | x ~ \"b\") ~ ANY*",
        "(\"a\" ~ x* ~ \"b\")* ~ ANY*", "(x ~ \"b\"? ~ x)? ~ ANY*", "(\"a\" ~ (\"b\"? ~ x))* ~ ANY*", "(\"a\" ~ \"b\"* ~ x | \"a\" ~ \"b\") ~ ANY*", "!(\"a\" ~ x? ~ \"b\") ~ ANY ~ ANY*",
        // stack matchers directly under a repetition (a half-matched iteration must not move the cursor)
        "PUSH(x) ~ PUSH(\"b\") ~ PEEK_ALL* ~ ANY*", "PUSH(x) ~ PUSH(\"b\") ~ PEEK[0..]* ~ ANY*", "PUSH(x) ~ PUSH(\"b\") ~ PEEK_ALL+ ~ x? ~ ANY?", "PUSH(x) ~ PUSH(\"b\") ~ (PEEK[..] | x)* ~ ANY?", "PUSH(\"b\") ~ PUSH(x) ~ PUSH(x) ~ DROP* ~ PEEK_ALL ~ EOI", "PUSH(x) ~ PUSH(\"b\") ~ PEEK_ALL* ~ \"b\" ~ ANY*", "PUSH(x) ~ PUSH(\"b\") ~ PEEK[0..]* ~ x ~ ANY*",
        // every PEEK slice form where its direction and bounds are observable
        "PUSH(x) ~ PUSH(\"b\") ~ PEEK[..] ~ EOI", "PUSH(x) ~ PUSH(\"b\") ~ (PEEK[0..] | PEEK_ALL) ~ ANY*", "PUSH(x) ~ PUSH(\"b\") ~ PEEK[..2] ~ x?", "PUSH(x) ~ PUSH(\"b\") ~ PEEK[-2..] ~ \"b\"?", "PUSH(x) ~ PUSH(\"b\") ~ PEEK[1..] ~ PEEK[..1] ~ ANY?", "PUSH(x) ~ PUSH(\"b\") ~ PEEK[..-1] ~ PEEK[-1..] ~ ANY?",
        // equal and zero bounds, the skipper shape under +, mixed-case insensitive literal
        "x{2,2} ~ \"a\"?", "x{0,2} ~ \"b\"?", "(!\"b\" ~ ANY)+ ~ \"b\"?", "^\"aB\" ~ x?",
    ];
    if extras {
        forms.extend(["(#t = x) ~ x", "#t = (x ~ x)", "(#t = x)*", "#t = x? ~ \"a\"", "x ~ (#t = \"a\"?)", "(#t = x | #u = \"b\")+", "PUSH_LITERAL(\"a\") ~ x ~ POP", "#t = (x+)", "x ~ #t = (\"b\"*) ~ x", "(#t = x ~ \"b\")?", "#t = x*", "#t = (x ~ \"b\")* ~ x?", "\"b\"? ~ #t = x* ~ #u = x?", "#t = (x | \"b\")*",
            // stack-changing matchers under a tag (the optimizer must still see them)
            "PUSH(x) ~ PUSH(\"b\") ~ (#t = POP*) ~ PEEK_ALL? ~ ANY*", "PUSH(x) ~ PUSH(\"b\") ~ #t = POP? ~ PEEK ~ ANY?", "PUSH(x) ~ PUSH(\"b\") ~ (#t = (POP_ALL | x)) ~ PEEK? ~ ANY*", "PUSH(x) ~ (#t = (DROP ~ \"b\"))? ~ PEEK ~ ANY*", "PUSH(x) ~ PUSH(\"b\") ~ (#t = POP*) ~ (PEEK | \"b\") ~ ANY*", "PUSH(x) ~ PUSH(\"b\") ~ (#t = POP*) ~ DROP ~ ANY*",
            // two literal entries: a half-matched second iteration fits into three characters
            "PUSH_LITERAL(\"a\") ~ PUSH_LITERAL(\"b\") ~ PEEK_ALL* ~ \"b\" ~ ANY*", "PUSH_LITERAL(\"a\") ~ PUSH_LITERAL(\"b\") ~ PEEK[..]* ~ x ~ ANY*", "PUSH_LITERAL(\"a\") ~ PUSH_LITERAL(\"b\") ~ (PEEK_ALL | \"b\")+ ~ ANY?"]);
    }
    let wss: Vec<(&str, &str)> = vec![
        ("", ""),
        ("WHITESPACE = _{ \" \" } ", "ws_"),
        ("WHITESPACE = { \" \" } ", "ws"),
        ("WHITESPACE = @{ \" \" } ", "ws@"),
        ("WHITESPACE = ${ \" \" } ", "ws$"),
        ("WHITESPACE = !{ \" \" } ", "ws!"),
        ("COMMENT = _{ \"#\" } ", "c_"),
        ("COMMENT = { \"#\" } WHITESPACE = _{ \" \" } ", "c+ws"),
        ("COMMENT = ${ \"#\" ~ x? } WHITESPACE = { \" \" } ", "c$+ws"),
        ("COMMENT = !{ \"#\" ~ x? } ", "c!"),
    ];
    let callers = ["", "@", "$", "!"];
    for (fi, f) in forms.iter().enumerate() {
        for (ti, t1) in types.iter().enumerate() {
            for (wi, (ws, _)) in wss.iter().enumerate() {
                for (ci, c) in callers.iter().enumerate() {
                    // quick tier: a covering subset of the product
                    // thorough: the full product for the first 36 forms; the forms added later keep the
                    // covering subset (the compiled corpus has to stay within what 8 parallel rustc can hold)
                    if !(thorough && fi < 36) && !((wi <= 2 && ci <= 1) || (wi == 5 && ci == 0) || (ci >= 2 && wi == 1 && ti % 2 == 0) || (wi >= 6 && ci == 0 && (fi + ti) % 3 == 0)) {
                        continue;
                    }
                    push(format!("{ws}x = {{ \"a\" }} inner = {t1}{{ {f} }} r = {c}{{ inner ~ \"b\" }} outer = {{ r ~ inner? }}"), "operator-forms");
                }
            }
        }
    }
    // (ii) size-ordered trees (small: the compile budget bounds this)
    // (PEEK[..] and POP_ALL match the empty string on an empty stack, so `(PEEK[..])*` is accepted
    // by pest and never terminates: they are kept out of the size-ordered slice and exercised in
    // the directed stack grammars below, which terminate by construction)
    let leaves = ["\"a\"", "\"b\"", "\"\"", "ANY", "EOI", "x", "PUSH(\"a\")", "POP", "PEEK", "DROP", "'a'..'b'", "^\"a\""];
    let un: [(&str, &str); 8] = [("(", ")?"), ("(", ")*"), ("(", ")+"), ("(", "){2}"), ("(", "){,2}"), ("&(", ")"), ("!(", ")"), ("PUSH(", ")")];
    let mut by: Vec<Vec<String>> = vec![vec![], leaves.iter().map(|s| s.to_string()).collect()];
    for n in 2..=3 {
        let mut lvl = vec![];
        for (a, b) in un.iter() {
            for e in &by[n - 1] {
                lvl.push(format!("{a}{e}{b}"));
            }
        }
        for i in 1..n - 1 {
            let j = n - 1 - i;
            for x in &by[i] {
                for y in &by[j] {
                    lvl.push(format!("({x} ~ {y})"));
                    lvl.push(format!("({x} | {y})"));
                }
            }
        }
        by.push(lvl);
    }
    for (i, b) in by[1].iter().chain(by[2].iter()).enumerate() {
        let t = types[i % 5];
        push(format!("x = {{ \"a\" ~ \"b\" }} r = {t}{{ {b} }}"), "size-ordered");
        push(format!("WHITESPACE = _{{ \" \" }} x = @{{ \"a\" ~ \"b\" }} r = {t}{{ {b} }}"), "size-ordered");
    }
    if thorough {
        for (i, b) in by[3].iter().enumerate() {
            let t = types[i % 5];
            push(format!("x = {{ \"a\" ~ \"b\" }} r = {t}{{ {b} }}"), "size-ordered");
            if i % 2 == 0 {
                push(format!("WHITESPACE = _{{ \" \" }} x = ${{ \"a\" ~ \"b\" }} r = {t}{{ {b} }}"), "size-ordered");
            }
        }
    }
    // (iii) built-ins, Unicode names, user rules named like non-keyword built-ins
    let builtins = ["ANY", "SOI", "EOI", "ASCII_DIGIT", "ASCII_NONZERO_DIGIT", "ASCII_BIN_DIGIT", "ASCII_OCT_DIGIT", "ASCII_HEX_DIGIT", "ASCII_ALPHA_LOWER", "ASCII_ALPHA_UPPER", "ASCII_ALPHA", "ASCII_ALPHANUMERIC", "ASCII", "NEWLINE", "LETTER", "UPPERCASE_LETTER", "HAN", "EMOJI", "XID_START", "WHITE_SPACE"];
    let mut all = String::new();
    for b in builtins {
        all.push_str(&format!("b_{b} = {{ {b} }} "));
    }
    push(format!("{all} r = {{ (b_ASCII_DIGIT | b_ASCII_ALPHA_UPPER | b_NEWLINE | b_ASCII_ALPHA)* ~ b_EOI }}"), "builtins");
    // the same built-ins on look-alikes outside ASCII (letter, digit, fullwidth hex letter, NEL) and on CR / LF
    extra.push(G { text: format!("{all} r = {{ (b_ASCII_ALPHANUMERIC | b_ASCII_HEX_DIGIT | b_NEWLINE | b_ASCII)* ~ b_EOI }}"), alphabet: "a\u{e9}\u{663}\u{ff21}\r\n\u{85}".into(), class: "builtins" });
    extra.push(G { text: format!("{all} r = {{ (b_ASCII_ALPHA_LOWER | b_ASCII_OCT_DIGIT | b_ASCII_BIN_DIGIT | b_ASCII_NONZERO_DIGIT)* ~ b_EOI }}"), alphabet: "zZ0189\u{ff10}".into(), class: "builtins" });
    for b in ["ASCII_DIGIT", "ASCII_ALPHA", "NEWLINE", "ASCII", "LETTER", "ASCII_HEX_DIGIT"] {
        for t in types {
            push(format!("{b} = {t}{{ \"a\" ~ \"b\"? }} r = {{ {b}+ ~ \"1\"? }} s = @{{ {b} ~ ANY }}"), "shadowed-builtin");
        }
    }
    // every advertised Unicode property name, as a built-in rule (chunks of 48 rules per grammar)
    {
        let names: Vec<&'static str> = pest::unicode::unicode_property_names().collect();
        for chunk in names.chunks(48) {
            let mut g = String::new();
            for n in chunk {
                g.push_str(&format!("u_{n} = {{ {n} }} "));
            }
            g.push_str(&format!("r = {{ ({})* ~ EOI }}", chunk.iter().take(6).map(|n| format!("u_{n}")).collect::<Vec<_>>().join(" | ")));
            extra.push(G { text: g, alphabet: "a1\u{4e2d}\u{1f600} \u{feff}".into(), class: "unicode-names" });
        }
    }
    // built-in and Unicode property rules directly under repetitions, with implicit whitespace
    for ws in ["WHITESPACE = _{ \" \" } ", "COMMENT = _{ \"#\" } ", ""] {
        extra.push(G { text: format!("{ws}r = {{ LETTER* ~ EOI }} s = {{ HAN+ ~ NUMBER? }} t = @{{ NUMBER* ~ LETTER }} u = ${{ (LETTER | NUMBER)+ }} v = !{{ ASCII_DIGIT* ~ LETTER{{2}} }} w = {{ (ANY ~ LETTER)* }}"), alphabet: "a1 #\u{4e2d}".into(), class: "builtins" });
    }
    // grammar files: the text reaches the derive byte for byte (line breaks inside literals and comments)
    for (text, alphabet) in [
        ("r = { \"a\r\nb\" ~ x? }\r\nx = { \"a\" }\r\n", "ab\r\n"),
        ("r = { \"a\rb\" | \"a\nb\" } // c\r\n x = @{ r ~ \"\t\" }", "ab\r\n\t"),
        ("/// doc\r\nr = { (!\"\r\n\" ~ ANY)* ~ \"\r\n\"? }\r\n", "ab\r\n"),
        ("r = {\r\n  \"a\" ~\r\n  \"b\"\r\n}\r\nWHITESPACE = _{ \"\r\" | \"\n\" }", "ab\r\n"),
    ] {
        extra.push(G { text: text.to_string(), alphabet: alphabet.to_string(), class: "grammar-files" });
    }
    // stack ops
    for body in ["PUSH(\"a\" | \"b\") ~ PUSH(ANY) ~ PEEK_ALL", "PUSH(\"a\") ~ PUSH(\"b\") ~ PEEK[0..1] ~ PEEK[-1..] ~ POP_ALL", "PUSH(ANY) ~ (DROP | \"x\") ~ EOI", "PUSH(\"a\")* ~ (POP ~ \"b\"?)*", "PUSH(\"a\") ~ (POP_ALL | \"a\" ~ PEEK_ALL)", "PUSH(\"b\") ~ PUSH(\"a\") ~ PEEK[..]? ~ ANY*"] {
        for t in types {
            push(format!("r = {t}{{ {body} }}"), "stack");
            push(format!("WHITESPACE = _{{ \" \" }} r = {t}{{ {body} }} s = @{{ r ~ \"x\" }}"), "stack");
        }
    }
    // error-report shapes: many rules tried at one position
    push("a = { \"a\" } b = { \"b\" } c = { a ~ b } d = _{ a | b } e = @{ \"a\" ~ \"b\" } f = ${ b ~ a? } g = { !a ~ ANY } many = { a | b | c | e | g } mid = { many ~ \"x\" } top = { a | b | mid } r = { top ~ (!mid ~ ANY)* ~ EOI }".to_string(), "many-rules");
    push("WHITESPACE = _{ \" \" } a = { \"a\" } b = { \"b\" } neg = { !a ~ !b ~ ANY } r = { (a | b | neg)+ ~ EOI } s = @{ r ~ \"#\" }".to_string(), "many-rules");
    v.extend(extra);
    v
}
