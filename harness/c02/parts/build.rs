//! Emits the compiled corpus: one module per grammar with `#[derive(pest_derive::Parser)]`
//! (the *current* generator of /repo), plus a table of entries.
use std::fmt::Write;
include!("gen_corpus.rs");

fn main() {
    println!("cargo:rerun-if-changed=../c02/parts/build.rs");
    println!("cargo:rerun-if-changed=../c02/parts/gen_corpus.rs");
    println!("cargo:rerun-if-env-changed=VERIF_TIER");
    let pkg = std::env::var("CARGO_PKG_NAME").unwrap();
    // c02p3 / c02xp3: feature configuration and slice number come from the package name
    let extras = pkg.starts_with("c02x");
    let part: usize = pkg.rsplit('p').next().unwrap().parse().expect("part number");
    const NPARTS: usize = 8;
    let thorough = std::env::var("VERIF_TIER").map_or(false, |t| t == "thorough");
    let mut seen = std::collections::HashSet::new();
    let mut s = String::new();
    let mut table = String::new();
    let mut n = 0;
    let mut rejected = 0;
    let mut index = 0usize;
    for g in corpus(extras, thorough) {
        if !seen.insert(g.text.clone()) {
            continue;
        }
        index += 1;
        if index % NPARTS != part {
            continue;
        }
        // only grammars the front-end accepts can be derived (a rejected one would fail the build)
        let rules: Vec<String> = match std::panic::catch_unwind(|| pest_meta::parse_and_optimize(&g.text).map(|(_, r)| r.iter().map(|x| x.name.clone()).collect::<Vec<_>>())) {
            Ok(Ok(r)) => r,
            _ => {
                rejected += 1;
                continue;
            }
        };
        let uses_eoi = g.text.contains("EOI");
        // the "grammar-files" class goes through the derive's other entry point, #[grammar = "file"]
        // (the file holds the text byte for byte: raw CR, CRLF, BOM-free UTF-8)
        let attr = if g.class == "grammar-files" {
            let path = std::path::PathBuf::from(std::env::var("OUT_DIR").unwrap()).join(format!("g{n}.pest"));
            std::fs::write(&path, &g.text).unwrap();
            format!("#[grammar = \"{}\"]", path.display())
        } else {
            format!("#[grammar_inline = r####\"{}\"####]", g.text)
        };
        writeln!(s, "#[allow(non_camel_case_types, non_snake_case, clippy::all)]\npub mod g{n} {{\n    #[derive(pest_derive::Parser)]\n    {attr}\n    pub struct P;\n    pub fn rule(n: &str) -> Option<Rule> {{\n        match n {{").unwrap();
        for r in &rules {
            writeln!(s, "            \"{r}\" => Some(Rule::r#{r}),").unwrap();
        }
        if uses_eoi {
            writeln!(s, "            \"EOI\" => Some(Rule::EOI),").unwrap();
        }
        writeln!(s, "            _ => None,\n        }}\n    }}\n}}").unwrap();
        let mut names: Vec<String> = rules.clone();
        if uses_eoi {
            names.push("EOI".into());
        }
        writeln!(
            table,
            "    Entry {{ grammar: \"{}\", class: \"{}\", alphabet: \"{}\", rules: &[{}], run: |r, i| c02core::run_generated::<g{n}::P, g{n}::Rule>(g{n}::rule(r), i) }},",
            g.text.chars().flat_map(|c| c.escape_default()).collect::<String>(),
            g.class,
            g.alphabet.chars().flat_map(|c| c.escape_default()).collect::<String>(),
            names.iter().map(|x| format!("\"{x}\"")).collect::<Vec<_>>().join(", ")
        )
        .unwrap();
        n += 1;
    }
    writeln!(s, "pub static CORPUS_PART: &[Entry] = &[\n{table}];\npub const REJECTED_AT_BUILD: usize = {rejected};\npub const THOROUGH: bool = {thorough};").unwrap();
    let out = std::path::PathBuf::from(std::env::var("OUT_DIR").unwrap()).join("corpus.rs");
    std::fs::write(out, s).unwrap();
}
