//! C02 — the generated parser and the interpreting VM agree on every grammar and input.
//! A corpus of grammars is compiled with the *current* `#[derive(Parser)]` at harness build time
//! (build.rs); every grammar x every rule as start x every input up to the bound is parsed by the
//! generated code and by `pest_vm` on `parse_and_optimize` of the same text.
use c02core::{norm, Entry, Out};
use pest_vm::Vm;
use vcore::pool::{self, PoolOpts, Worker};
use vcore::{catch, json, verdict, Cfg, Stats, Value};

#[cfg(not(feature = "extras"))]
use {c02p0 as p0, c02p1 as p1, c02p2 as p2, c02p3 as p3, c02p4 as p4, c02p5 as p5, c02p6 as p6, c02p7 as p7};
#[cfg(feature = "extras")]
use {c02xp0 as p0, c02xp1 as p1, c02xp2 as p2, c02xp3 as p3, c02xp4 as p4, c02xp5 as p5, c02xp6 as p6, c02xp7 as p7};

fn corpus() -> Vec<&'static Entry> {
    let parts: [&'static [Entry]; 8] = [p0::CORPUS_PART, p1::CORPUS_PART, p2::CORPUS_PART, p3::CORPUS_PART, p4::CORPUS_PART, p5::CORPUS_PART, p6::CORPUS_PART, p7::CORPUS_PART];
    // interleave so that the order is the generation order again
    let mut v = vec![];
    let max = parts.iter().map(|p| p.len()).max().unwrap_or(0);
    for i in 0..max {
        for k in 1..=8 {
            if let Some(e) = parts[k % 8].get(i) {
                v.push(e);
            }
        }
    }
    v
}

fn show(o: &Out) -> Value {
    match o {
        Out::Ok(t) => json!({"ok": t.iter().map(|(r, s, e, tag)| format!("{r}[{s}..{e}]{}", tag.as_ref().map(|t| format!("#{t}")).unwrap_or_default())).collect::<Vec<_>>().join(" ")}),
        Out::Err { pos, positives, negatives, custom } => json!({"err": {"pos": pos, "positives": positives, "negatives": negatives, "custom": custom}}),
        Out::Panic(p) => json!({"panic": p}),
        Out::NoSuchRule => json!("no such rule in the generated parser"),
    }
}

fn features() -> &'static str {
    if cfg!(feature = "extras") {
        "grammar-extras"
    } else {
        "default"
    }
}

/// Syntactic predicates of the known-finding entries (evaluated on the grammar text).
fn preds(grammar: &str) -> Vec<String> {
    let mut v = vec![];
    if grammar.contains("WHITESPACE = !{") || grammar.contains("COMMENT = !{") {
        v.push("non-atomic-special-rule".to_string());
    }
    for b in ["ASCII_DIGIT", "ASCII_ALPHA", "NEWLINE", "ASCII", "LETTER", "ASCII_HEX_DIGIT"] {
        if grammar.starts_with(&format!("{b} = ")) {
            v.push("user-rule-named-like-builtin".to_string());
        }
    }
    if grammar.contains("#t = ") || grammar.contains("#u = ") {
        v.push("node-tag-on-empty-match".to_string());
    }
    v
}

fn check_entry(e: &Entry, max_len: usize, stats: &mut Stats, known: &verdict::Known) {
    let vm = match catch(|| pest_meta::parse_and_optimize(e.grammar).map(|x| x.1)) {
        Ok(Ok(opt)) => Vm::new(opt),
        _ => {
            stats.failures.push(format!("grammar accepted at build time is rejected at run time: {}", e.grammar));
            return;
        }
    };
    let alpha: Vec<char> = e.alphabet.chars().collect();
    let inputs = vcore::strings_upto(&alpha, max_len);
    stats.inc("programs");
    stats.inc(&format!("programs.{}", e.class));
    for rule in e.rules {
        for input in &inputs {
            let g = (e.run)(rule, input);
            let v = catch(|| norm(vm.parse(rule, input))).unwrap_or_else(Out::Panic);
            stats.inc("evaluations");
            let nontrivial = match &v {
                Out::Ok(t) => !t.is_empty(),
                Out::Err { pos, .. } => *pos > 0,
                _ => true,
            };
            if nontrivial {
                stats.inc("distinct_nontrivial");
            }
            if g == v {
                stats.outcome(match &v {
                    Out::Ok(_) => "ok",
                    Out::Err { .. } => "err",
                    Out::Panic(_) => "both-panic",
                    Out::NoSuchRule => "norule",
                });
                if stats.samples.len() < 3 && nontrivial && input.len() >= 3 {
                    stats.sample(|| json!({"grammar": e.grammar, "rule": rule, "input": input, "both": show(&v)}));
                }
                continue;
            }
            stats.inc("disagreements_checked");
            let class = match (&g, &v) {
                (Out::Ok(_), Out::Ok(_)) => "tokens-differ",
                (Out::Err { .. }, Out::Err { .. }) => "error-differs",
                (Out::Panic(_), _) | (_, Out::Panic(_)) => "one-side-panics",
                _ => "acceptance-differs",
            };
            let case = json!({"kind": "generated-parser-and-vm-disagree", "grammar": e.grammar, "rule": rule, "input": input, "generated": show(&g), "vm": show(&v), "features": features(), "corpus_class": e.class});
            let p = preds(e.grammar);
            match known.first_open("C02", &p) {
                Some(pr) => stats.known(pr, || case.clone()),
                None => stats.violation_class(&format!("{class}.{}", e.class), case),
            }
        }
    }
}

/// C15 on the generated back-end: error detail off vs on must give the same result.
fn check_entry_c15(e: &Entry, max_len: usize, stats: &mut Stats) {
    let alpha: Vec<char> = e.alphabet.chars().collect();
    let inputs = vcore::strings_upto(&alpha, max_len);
    for rule in e.rules {
        for input in &inputs {
            pest::set_error_detail(false);
            let off = (e.run)(rule, input);
            pest::set_error_detail(true);
            let on = (e.run)(rule, input);
            pest::set_error_detail(false);
            stats.inc("evaluations");
            if !matches!(&off, Out::Ok(t) if t.is_empty()) {
                stats.inc("distinct_nontrivial");
            }
            if off != on {
                stats.violation_class("generated.result-differs", json!({"kind": "error-detail-changes-result", "backend": "generated", "grammar": e.grammar, "rule": rule, "input": input, "detail_off": show(&off), "detail_on": show(&on), "features": features()}));
            } else {
                stats.outcome(match &off {
                    Out::Ok(_) => "gen:ok",
                    Out::Err { .. } => "gen:err",
                    _ => "gen:panic",
                });
            }
        }
    }
}

/// C12 on the generated back-end: every limit 1..=C+1.
fn check_entry_c12(e: &Entry, max_len: usize, max_calls: usize, stats: &mut Stats) {
    use std::num::NonZeroUsize;
    let alpha: Vec<char> = e.alphabet.chars().collect();
    let inputs = vcore::strings_upto(&alpha, max_len);
    let is_clr = |o: &Out| matches!(o, Out::Err { custom: Some(m), .. } if m == "call limit reached");
    for rule in e.rules {
        for input in &inputs {
          for detail in [false, true] {
            pest::set_error_detail(detail);
            pest::set_call_limit(None);
            let inf = (e.run)(rule, input);
            if matches!(inf, Out::Panic(_) | Out::NoSuchRule) {
                stats.inc("excluded.unlimited-run-panics(documented empty-stack panic)");
                continue;
            }
            pest::set_call_limit(NonZeroUsize::new(usize::MAX / 2));
            let big = (e.run)(rule, input);
            let calls = pest::verif::last_call_count();
            pest::set_call_limit(None);
            let Some(c) = calls else {
                stats.failures.push("hook H2 returned no call count".into());
                return;
            };
            if big != inf {
                stats.violation_class("generated.huge-limit-differs", json!({"kind": "result-under-unreachable-limit-differs", "backend": "generated", "grammar": e.grammar, "rule": rule, "input": input, "features": features()}));
                continue;
            }
            if c > max_calls {
                stats.inc("excluded.more-calls-than-the-tier-sweeps");
                continue;
            }
            let mut completed_at = None;
            for l in 1..=c + 1 {
                pest::set_call_limit(NonZeroUsize::new(l));
                let r = (e.run)(rule, input);
                pest::set_call_limit(None);
                stats.inc("evaluations");
                if l > 1 && l <= c {
                    stats.inc("distinct_nontrivial");
                }
                let same = r == inf;
                if !same && !is_clr(&r) {
                    stats.violation_class("generated.silent-change", json!({"kind": "limit-changes-result-silently", "backend": "generated", "error_detail": detail, "grammar": e.grammar, "rule": rule, "input": input, "limit": l, "calls_needed": c, "unlimited": show(&inf), "limited": show(&r), "features": features()}));
                    break;
                }
                if same && completed_at.is_none() {
                    completed_at = Some(l);
                }
                if !same {
                    if let Some(l0) = completed_at {
                        stats.violation_class("generated.not-monotone", json!({"kind": "completes-under-smaller-limit-but-not-larger", "backend": "generated", "grammar": e.grammar, "rule": rule, "input": input, "completes_at": l0, "fails_at": l, "features": features()}));
                        break;
                    }
                }
            }
            stats.outcome(&format!("gen:calls{}{}", c.min(12), if detail { ":detail" } else { "" }));
          }
          pest::set_error_detail(false);
        }
    }
}

fn main() {
    let cfg = Cfg::from_env();
    vcore::quiet_panics();
    let known = verdict::Known::load();
    let corpus = corpus();
    let prop = cfg.opt("--prop").unwrap_or_else(|| "C02".to_string());
    let built_thorough = p0::THOROUGH;
    let max_len = cfg.opt("len").and_then(|s| s.parse().ok()).unwrap_or(if built_thorough { 5 } else { 4 });
    if let Some(mut w) = Worker::from_env() {
        let mut st = Stats::new();
        for (i, e) in corpus.iter().enumerate() {
            if !w.mine(i as u64) {
                continue;
            }
            if !w.begin(|| e.grammar.to_string()) {
                continue;
            }
            match prop.as_str() {
                "C15" => check_entry_c15(e, max_len.min(if built_thorough { 4 } else { 3 }), &mut st),
                "C12" => {
                    // the sweep is quadratic in the call count: a thinner slice of the corpus, shorter inputs
                    if i % (if built_thorough { 2 } else { 4 }) == 0 {
                        check_entry_c12(e, 3, if built_thorough { 200 } else { 60 }, &mut st)
                    }
                }
                _ => check_entry(e, max_len, &mut st, &known),
            }
        }
        w.finish(st);
    }
    if let Some(p) = &cfg.replay {
        let case = verdict::load_replay(p);
        let g = case["grammar"].as_str().unwrap();
        let want_extras = case["features"].as_str() == Some("grammar-extras");
        if want_extras != cfg!(feature = "extras") {
            let other = std::env::current_exe().unwrap().with_file_name(if want_extras { "c02x" } else { "c02" });
            let st = std::process::Command::new(other).args(std::env::args().skip(1)).status().expect("spawn");
            std::process::exit(st.code().unwrap_or(2));
        }
        match corpus.iter().find(|e| e.grammar == g) {
            Some(e) => {
                let mut st = Stats::new();
                check_entry(e, max_len, &mut st, &verdict::Known::default());
                for v in st.violations.iter().take(5) {
                    println!("{v:#}");
                }
                if st.get("violations") > 0 {
                    println!("VIOLATION property=C02 replay={p}");
                    std::process::exit(1)
                }
                println!("replay: generated parser and VM agree on this grammar");
                std::process::exit(0)
            }
            None => {
                println!("replay: grammar not in the compiled corpus of this tier (rebuild with VERIF_TIER={})", case["tier"].as_str().unwrap_or("thorough"));
                std::process::exit(2)
            }
        }
    }
    let want_thorough = !cfg.quick();
    let mut stats = Stats::new();
    if want_thorough != built_thorough {
        stats.failures.push(format!("the compiled corpus was built for tier {} but tier {} was requested (run through ./check, which exports VERIF_TIER before building)", if built_thorough { "thorough" } else { "quick" }, cfg.tier.name()));
    }
    let me = std::env::current_exe().unwrap();
    for (name, exe) in [("default", me.with_file_name("c02")), ("grammar-extras", me.with_file_name("c02x"))] {
        if !exe.exists() {
            stats.failures.push(format!("binary for feature configuration {name} not built: {}", exe.display()));
            continue;
        }
        let mut opts = PoolOpts::new(cfg.jobs);
        opts.exe = Some(exe);
        opts.stall_secs = 20;
        let res = pool::run_pool(&opts);
        let mut s = res.stats;
        for (shard, d, case) in &res.deaths {
            s.violation_class("parser-did-not-return", json!({"kind": "generated-parser-or-vm-did-not-return", "features": name, "shard": shard, "how": format!("{d:?}"), "grammar": case}));
        }
        stats.add(&format!("evaluations.{name}"), s.get("evaluations"));
        stats.merge(s);
    }
    if cfg.has("--emit-stats") {
        println!("@STATS {}", stats.to_json());
        return;
    }
    stats.add("grammars_rejected_at_build", (p0::REJECTED_AT_BUILD + p1::REJECTED_AT_BUILD + p2::REJECTED_AT_BUILD + p3::REJECTED_AT_BUILD + p4::REJECTED_AT_BUILD + p5::REJECTED_AT_BUILD + p6::REJECTED_AT_BUILD + p7::REJECTED_AT_BUILD) as u64);
    let mut cov = vcore::Map::new();
    cov.insert("programs".into(), json!(stats.get("programs")));
    cov.insert("disagreements_checked".into(), json!(stats.get("disagreements_checked")));
    cov.insert("rule".into(), json!("program = one grammar compiled by the current #[derive(Parser)] at harness build time (8 part crates per feature configuration): every operator form (23, extras +10 tagged / PUSH_LITERAL forms) x 5 rule modifiers x 10 WHITESPACE/COMMENT set-ups of every modifier x 4 caller modifiers (quick: a covering subset), size-ordered trees over 12 leaves, all ASCII built-ins and sample Unicode names, user rules named like non-keyword built-ins, stack-op grammars, many-rule error-report shapes; default and grammar-extras builds. Each program is run from every rule (incl. WHITESPACE/COMMENT/EOI) on every input up to the bound over its alphabet by the generated parser and by pest_vm on parse_and_optimize of the same text, in watchdog-supervised worker processes; agreement = same flattened (rule, span, tag) list, or same error position and same expected/unexpected name sets, or both panic"));
    verdict::conclude(verdict::Report {
        property: "C02",
        level: "translation_validation",
        cfg: &cfg,
        stats,
        coverage: cov,
        assumptions: vec!["the corpus is compiled, so its grammar bound is lower than C01's".into(), "order of expected/unexpected lists is not compared (enum order vs string order)".into(), "grammars that pest accepts but that never terminate (repetition of PEEK[..]/POP_ALL on an empty stack) are kept out of the corpus".into()],
    })
}
