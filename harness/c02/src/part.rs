//! One slice of the compiled C02 corpus (see ../build.rs).
pub use c02core::Entry;
include!(concat!(env!("OUT_DIR"), "/corpus.rs"));
