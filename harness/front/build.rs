//! Generates (a) a parser derived *now* from /repo/meta/src/grammar.pest with /repo/derive,
//! (b) name tables for the checked-in parser's Rule enum (names read from grammar.rs) and for the
//! fresh one (names read from grammar.pest), so that C14 can address every sub-rule of all three
//! implementations by name.
use std::fmt::Write;

fn enum_variants(src: &str) -> Vec<String> {
    let start = src.find("pub enum Rule {").expect("enum Rule in grammar.rs") + "pub enum Rule {".len();
    let b = src.as_bytes();
    let mut depth = 1;
    let mut i = start;
    let mut out = vec![];
    let mut cur = String::new();
    let mut in_str = false;
    let mut bracket = 0;
    while i < b.len() && depth > 0 {
        let c = b[i] as char;
        if in_str {
            if c == '\\' {
                i += 1;
            } else if c == '"' {
                in_str = false;
            }
        } else {
            match c {
                '"' => in_str = true,
                '[' => bracket += 1,
                ']' => bracket -= 1,
                '{' => depth += 1,
                '}' => depth -= 1,
                ',' if bracket == 0 => {
                    out.push(cur.trim().to_string());
                    cur.clear();
                }
                '#' => {
                    if cur.trim() == "r" {
                        cur.push('#');
                    }
                }
                _ if bracket == 0 => cur.push(c),
                _ => {}
            }
        }
        i += 1;
    }
    if !cur.trim().is_empty() {
        out.push(cur.trim().to_string());
    }
    out.into_iter().filter(|s| !s.is_empty()).collect()
}

fn main() {
    println!("cargo:rerun-if-changed=/repo/meta/src/grammar.pest");
    println!("cargo:rerun-if-changed=/repo/meta/src/grammar.rs");
    println!("cargo:rerun-if-changed=build.rs");
    let pest_src = std::fs::read_to_string("/repo/meta/src/grammar.pest").expect("grammar.pest");
    let rs_src = std::fs::read_to_string("/repo/meta/src/grammar.rs").expect("grammar.rs");
    // rule names of grammar.pest: `name = ...` at line starts (the meta grammar is written that way)
    let mut pest_names: Vec<String> = vec![];
    for line in pest_src.lines() {
        let l = line.trim_start();
        if let Some(eq) = l.find('=') {
            let name = l[..eq].trim();
            if !name.is_empty() && line.starts_with(|c: char| c.is_ascii_alphabetic() || c == '_') && name.chars().all(|c| c.is_ascii_alphanumeric() || c == '_') {
                pest_names.push(name.to_string());
            }
        }
    }
    pest_names.push("EOI".into());
    let rs_names = enum_variants(&rs_src);
    let mut s = String::new();
    let hashes = "####";
    writeln!(s, "pub const META_GRAMMAR: &str = r{hashes}\"{pest_src}\"{hashes};").unwrap();
    writeln!(s, "pub mod fresh {{\n    #[derive(pest_derive::Parser)]\n    #[grammar_inline = r{hashes}\"{pest_src}\"{hashes}]\n    pub struct FreshMeta;\n}}").unwrap();
    writeln!(s, "pub static CHECKED_IN_RULES: &[(&str, pest_meta::parser::Rule)] = &[").unwrap();
    for n in &rs_names {
        let plain = n.trim_start_matches("r#");
        writeln!(s, "    (\"{plain}\", pest_meta::parser::Rule::{n}),").unwrap();
    }
    writeln!(s, "];").unwrap();
    writeln!(s, "pub static FRESH_RULES: &[(&str, fresh::Rule)] = &[").unwrap();
    for n in &pest_names {
        writeln!(s, "    (\"{n}\", fresh::Rule::{n}),").unwrap();
    }
    writeln!(s, "];").unwrap();
    let out = std::path::PathBuf::from(std::env::var("OUT_DIR").unwrap()).join("gen.rs");
    std::fs::write(out, s).unwrap();
}
