//! C07 — the grammar reader reconstructs exactly the grammar that was written.
//! Abstract rule sets are printed with only the parentheses precedence requires, respelled
//! with bounded deviations (spacing/comments in every gap, redundant parentheses, escape forms,
//! leading `|`, doc comments), read back with pest_meta, and compared with the abstract rules.
use pest_meta::ast::{Expr, Rule, RuleType};
use pest_meta::parser;
use vcore::pool::Worker;
use vcore::{catch, json, Stats};

// ------------------------------------------------------------------ printer (token list)

/// Tokens of the concrete syntax; gaps between tokens are where spacing may vary.
fn lit_escape(s: &str, quote: char, force: Option<(usize, u8)>) -> String {
    // canonical escaping; `force` = (char index, style) respells one character:
    // style 0: \xNN (only for chars <= 0xFF), 1: \u{N..} minimal (>= 2 digits), 2: \u{00NNNN}
    let mut out = String::new();
    for (i, c) in s.chars().enumerate() {
        if let Some((fi, style)) = force {
            if fi == i {
                let v = c as u32;
                match style {
                    0 if v <= 0xFF => {
                        out.push_str(&format!("\\x{v:02X}"));
                        continue;
                    }
                    1 => {
                        out.push_str(&format!("\\u{{{v:02x}}}"));
                        continue;
                    }
                    2 => {
                        out.push_str(&format!("\\u{{{v:06X}}}"));
                        continue;
                    }
                    _ => {}
                }
            }
        }
        match c {
            '\\' => out.push_str("\\\\"),
            '\n' => out.push_str("\\n"),
            '\r' => out.push_str("\\r"),
            '\t' => out.push_str("\\t"),
            '\0' => out.push_str("\\0"),
            c if c == quote => {
                out.push('\\');
                out.push(c);
            }
            c => out.push(c),
        }
    }
    out
}

#[derive(Clone, Copy, PartialEq, Eq, PartialOrd, Ord)]
enum Prec {
    Choice = 1,
    Seq = 2,
    Tag = 3,
    Prefix = 4,
    Postfix = 5,
    Atom = 6,
}

fn prec(e: &Expr) -> Prec {
    match e {
        Expr::Choice(..) => Prec::Choice,
        Expr::Seq(..) => Prec::Seq,
        #[cfg(feature = "extras")]
        Expr::NodeTag(..) => Prec::Tag,
        Expr::PosPred(_) | Expr::NegPred(_) => Prec::Prefix,
        Expr::Opt(_) | Expr::Rep(_) | Expr::RepOnce(_) | Expr::RepExact(..) | Expr::RepMin(..) | Expr::RepMax(..) | Expr::RepMinMax(..) => Prec::Postfix,
        _ => Prec::Atom,
    }
}

pub struct Spelling {
    /// respell character `1` of literal number `0` with style `2`
    pub escape: Option<(usize, usize, u8)>,
    /// wrap node number n (preorder) in redundant parentheses
    pub parens: Option<usize>,
    /// put a leading `|` in front of expression number n (rule bodies, parenthesised groups, PUSH bodies)
    pub leading_bar: Option<usize>,
    /// spell PEEK[0..j] as PEEK[..j]
    pub omit_zero: bool,
}

struct Printer<'a> {
    toks: Vec<String>,
    sp: &'a Spelling,
    lit_no: usize,
    node_no: usize,
    expr_no: usize,
}

impl<'a> Printer<'a> {
    fn t(&mut self, s: &str) {
        self.toks.push(s.to_string());
    }
    fn lit(&mut self, s: &str, quote: char) -> String {
        let force = match self.sp.escape {
            Some((l, c, st)) if l == self.lit_no => Some((c, st)),
            _ => None,
        };
        self.lit_no += 1;
        format!("{quote}{}{quote}", lit_escape(s, quote, force))
    }
    /// A full expression position (where a leading `|` is allowed).
    fn expression(&mut self, e: &Expr) {
        if self.sp.leading_bar == Some(self.expr_no) {
            self.t("|");
        }
        self.expr_no += 1;
        self.expr(e, Prec::Choice, false);
    }
    /// Print `e` in a context that requires at least precedence `min`; `right` = e is the right
    /// operand of a left-associative infix operator of its own level.
    fn expr(&mut self, e: &Expr, min: Prec, strict: bool) {
        let my = prec(e);
        let need = my < min || (strict && my == min);
        let redundant = self.sp.parens == Some(self.node_no);
        self.node_no += 1;
        if need || redundant {
            self.t("(");
            // inside parentheses a full expression starts
            if self.sp.leading_bar == Some(self.expr_no) {
                self.t("|");
            }
            self.expr_no += 1;
            self.bare(e);
            self.t(")");
        } else {
            self.bare(e);
        }
    }
    fn bare(&mut self, e: &Expr) {
        match e {
            Expr::Str(s) => {
                let l = self.lit(s, '"');
                self.t(&l)
            }
            Expr::Insens(s) => {
                self.t("^");
                let l = self.lit(s, '"');
                self.t(&l)
            }
            Expr::Range(a, b) => {
                let l = self.lit(a, '\'');
                self.t(&l);
                self.t("..");
                let l = self.lit(b, '\'');
                self.t(&l)
            }
            Expr::Ident(n) => self.t(n),
            Expr::PeekSlice(a, b) => {
                self.t("PEEK");
                self.t("[");
                if !(*a == 0 && self.sp.omit_zero) {
                    self.t(&a.to_string());
                }
                self.t("..");
                if let Some(b) = b {
                    self.t(&b.to_string());
                }
                self.t("]")
            }
            Expr::PosPred(x) => {
                self.t("&");
                self.expr(x, Prec::Prefix, false)
            }
            Expr::NegPred(x) => {
                self.t("!");
                self.expr(x, Prec::Prefix, false)
            }
            Expr::Seq(a, b) => {
                self.expr(a, Prec::Seq, false);
                self.t("~");
                self.expr(b, Prec::Seq, true)
            }
            Expr::Choice(a, b) => {
                self.expr(a, Prec::Choice, false);
                self.t("|");
                self.expr(b, Prec::Choice, true)
            }
            Expr::Opt(x) => {
                self.expr(x, Prec::Postfix, false);
                self.t("?")
            }
            Expr::Rep(x) => {
                self.expr(x, Prec::Postfix, false);
                self.t("*")
            }
            Expr::RepOnce(x) => {
                self.expr(x, Prec::Postfix, false);
                self.t("+")
            }
            Expr::RepExact(x, n) => {
                self.expr(x, Prec::Postfix, false);
                self.t("{");
                self.t(&n.to_string());
                self.t("}")
            }
            Expr::RepMin(x, n) => {
                self.expr(x, Prec::Postfix, false);
                self.t("{");
                self.t(&n.to_string());
                self.t(",");
                self.t("}")
            }
            Expr::RepMax(x, n) => {
                self.expr(x, Prec::Postfix, false);
                self.t("{");
                self.t(",");
                self.t(&n.to_string());
                self.t("}")
            }
            Expr::RepMinMax(x, m, n) => {
                self.expr(x, Prec::Postfix, false);
                self.t("{");
                self.t(&m.to_string());
                self.t(",");
                self.t(&n.to_string());
                self.t("}")
            }
            Expr::Push(x) => {
                self.t("PUSH");
                self.t("(");
                self.expression(x);
                self.t(")")
            }
            Expr::Skip(_) => unreachable!(),
            #[cfg(feature = "extras")]
            Expr::PushLiteral(s) => {
                self.t("PUSH_LITERAL");
                self.t("(");
                let l = self.lit(s, '"');
                self.t(&l);
                self.t(")")
            }
            #[cfg(feature = "extras")]
            Expr::NodeTag(x, tag) => {
                self.t(&format!("#{tag}"));
                self.t("=");
                // the tagged thing is `prefix* node postfix*`
                self.expr(x, Prec::Prefix, false)
            }
        }
    }
}

fn print_rules(rules: &[Rule], sp: &Spelling) -> Vec<String> {
    let mut p = Printer { toks: vec![], sp, lit_no: 0, node_no: 0, expr_no: 0 };
    for r in rules {
        p.t(&r.name);
        p.t("=");
        match r.ty {
            RuleType::Normal => {}
            RuleType::Silent => p.t("_"),
            RuleType::Atomic => p.t("@"),
            RuleType::CompoundAtomic => p.t("$"),
            RuleType::NonAtomic => p.t("!"),
        }
        p.t("{");
        p.expression(&r.expr);
        p.t("}");
    }
    p.toks
}

const GAPS: &[&str] = &[
    "", " ", "\n", "\t", " /* c */ ", "// c\n", " /* a /* nested */ b */", "\r\n",
    // comment text is arbitrary: a lone CR, a four-byte character at the very end, quotes and braces
    "// a\rb \u{1f600}\n", "/*\u{1f600}*/", "// \"{ }' = \r\n", "/* \r * / \u{20ac}*/",
];

/// Join tokens; `gap_dev` = (gap index, filler) deviations, all other gaps are one space.
fn join(toks: &[String], gap_dev: &[(usize, &str)], docs: Option<&str>) -> String {
    let mut s = String::new();
    if let Some(d) = docs {
        s.push_str(d);
    }
    for (i, t) in toks.iter().enumerate() {
        if i > 0 {
            match gap_dev.iter().find(|(g, _)| *g == i) {
                Some((_, f)) => s.push_str(f),
                None => s.push(' '),
            }
        }
        s.push_str(t);
    }
    s
}

// ------------------------------------------------------------------ abstract grammars

fn leaves_full() -> Vec<Expr> {
    let s = |x: &str| x.to_string();
    let mut v = vec![
        Expr::Ident(s("a")),
        Expr::Ident(s("b_1")),
        Expr::Ident(s("_x")),
        Expr::Ident(s("ANY")),
        Expr::Ident(s("PEEK")),
        Expr::Ident(s("POP_ALL")),
        Expr::Str(s("a")),
        Expr::Str(s("")),
        Expr::Str(s("\"")),
        Expr::Str(s("\\")),
        Expr::Str(s("é😀")),
        Expr::Str(s("\n\t\r\0")),
        Expr::Str(s("'")),
        Expr::Str(s("a b")),
        Expr::Str(s("\u{7f}\u{80}\u{ff}")),
        Expr::Str(s("/* x */ // y")),
        Expr::Insens(s("a")),
        Expr::Insens(s("É\"")),
        // letter case is content: it must survive reading in every literal kind
        Expr::Insens(s("SeLeCT")),
        Expr::Insens(s("Z")),
        Expr::Str(s("AbZ")),
        Expr::Range(s("A"), s("Z")),
        Expr::Ident(s("Rule_1Z")),
        Expr::Range(s("a"), s("z")),
        Expr::Range(s("'"), s("\\")),
        Expr::Range(s("é"), s("😀")),
        Expr::Range(s("\0"), s("\u{7f}")),
        Expr::Range(s("\""), s("\n")),
    ];
    for a in [-2, -1, 0, 1, 2] {
        for b in [None, Some(-2), Some(-1), Some(0), Some(1), Some(2)] {
            v.push(Expr::PeekSlice(a, b));
        }
    }
    // the extreme indices the reader's integer type admits
    for (a, b) in [(i32::MIN, None), (i32::MAX, None), (0, Some(i32::MIN)), (0, Some(i32::MAX)), (i32::MIN, Some(i32::MAX)), (-2147483647, Some(2147483646))] {
        v.push(Expr::PeekSlice(a, b));
    }
    #[cfg(feature = "extras")]
    {
        v.push(Expr::PushLiteral(s("a")));
        v.push(Expr::PushLiteral(s("AbZ")));
        v.push(Expr::PushLiteral(s("\"\\\n")));
    }
    v
}

fn unary(x: &Expr) -> Vec<Expr> {
    let b = || Box::new(x.clone());
    #[allow(unused_mut)]
    let mut v = vec![
        Expr::Opt(b()),
        Expr::Rep(b()),
        Expr::RepOnce(b()),
        Expr::RepExact(b(), 2),
        Expr::RepExact(b(), 10),
        Expr::RepMin(b(), 0),
        Expr::RepMin(b(), 1),
        Expr::RepMax(b(), 2),
        Expr::RepMinMax(b(), 0, 1),
        Expr::RepMinMax(b(), 1, 10),
        // equal bounds stay a two-bound repetition; the largest count the reader's integer type admits
        Expr::RepMinMax(b(), 2, 2),
        Expr::RepMinMax(b(), 1, u32::MAX),
        Expr::RepExact(b(), u32::MAX),
        Expr::RepMin(b(), u32::MAX - 1),
        Expr::RepMax(b(), u32::MAX),
        Expr::PosPred(b()),
        Expr::NegPred(b()),
        Expr::Push(b()),
    ];
    #[cfg(feature = "extras")]
    v.push(Expr::NodeTag(b(), "t".to_string()));
    v
}

fn by_size(leaves: &[Expr], max: usize, unary_small: bool) -> Vec<Vec<Expr>> {
    let mut by: Vec<Vec<Expr>> = vec![vec![], leaves.to_vec()];
    for n in 2..=max {
        let mut v = vec![];
        for e in &by[n - 1] {
            let us = unary(e);
            if unary_small {
                // structural slice: one representative of each precedence class
                for u in us {
                    if matches!(u, Expr::Opt(_) | Expr::RepMinMax(_, 1, 10) | Expr::NegPred(_) | Expr::Push(_)) || prec(&u) == Prec::Tag {
                        v.push(u);
                    }
                }
            } else {
                v.extend(us);
            }
        }
        for i in 1..n - 1 {
            let j = n - 1 - i;
            if j >= 1 {
                for x in &by[i] {
                    for y in &by[j] {
                        v.push(Expr::Seq(Box::new(x.clone()), Box::new(y.clone())));
                        v.push(Expr::Choice(Box::new(x.clone()), Box::new(y.clone())));
                    }
                }
            }
        }
        by.push(v);
    }
    by
}

fn count_nodes(e: &Expr) -> usize {
    1 + match e {
        Expr::Seq(a, b) | Expr::Choice(a, b) => count_nodes(a) + count_nodes(b),
        Expr::PosPred(x) | Expr::NegPred(x) | Expr::Opt(x) | Expr::Rep(x) | Expr::RepOnce(x) | Expr::RepExact(x, _) | Expr::RepMin(x, _) | Expr::RepMax(x, _) | Expr::RepMinMax(x, _, _) | Expr::Push(x) => count_nodes(x),
        #[cfg(feature = "extras")]
        Expr::NodeTag(x, _) => count_nodes(x),
        _ => 0,
    }
}

fn literals(e: &Expr, out: &mut Vec<String>) {
    match e {
        Expr::Str(s) | Expr::Insens(s) => out.push(s.clone()),
        Expr::Range(a, b) => {
            out.push(a.clone());
            out.push(b.clone());
        }
        #[cfg(feature = "extras")]
        Expr::PushLiteral(s) => out.push(s.clone()),
        Expr::Seq(a, b) | Expr::Choice(a, b) => {
            literals(a, out);
            literals(b, out);
        }
        Expr::PosPred(x) | Expr::NegPred(x) | Expr::Opt(x) | Expr::Rep(x) | Expr::RepOnce(x) | Expr::RepExact(x, _) | Expr::RepMin(x, _) | Expr::RepMax(x, _) | Expr::RepMinMax(x, _, _) | Expr::Push(x) => literals(x, out),
        #[cfg(feature = "extras")]
        Expr::NodeTag(x, _) => literals(x, out),
        _ => {}
    }
}

fn expr_positions(e: &Expr) -> usize {
    // number of places where a full `expression` starts: the body + parenthesised groups the
    // printer will emit + PUSH bodies (upper bound; indices beyond are simply never hit)
    count_nodes(e) + 1
}

// ------------------------------------------------------------------ the check

fn features() -> &'static str {
    if cfg!(feature = "extras") {
        "grammar-extras"
    } else {
        "default"
    }
}

pub fn read_back(text: &str) -> Result<Vec<Rule>, String> {
    match catch(|| {
        let pairs = parser::parse(parser::Rule::grammar_rules, text).map_err(|e| format!("reader rejects the text: {}", e.variant.message()))?;
        parser::verif_consume_rules_unvalidated(pairs).map_err(|es| format!("consume_rules rejects the text: {}", es.iter().map(|e| e.variant.message().to_string()).collect::<Vec<_>>().join("; ")))
    }) {
        Ok(r) => r,
        Err(p) => Err(format!("reader panicked: {p}")),
    }
}

fn check(rules: &[Rule], text: &str, what: &str, stats: &mut Stats) {
    stats.inc("evaluations");
    if what != "canonical" {
        stats.inc("distinct_nontrivial");
    }
    match read_back(text) {
        Ok(got) if got == rules => {
            stats.outcome(what.split(':').next().unwrap());
        }
        Ok(got) => stats.violation_class(&format!("reconstructed-differently.{}", what.split(':').next().unwrap()), json!({"kind": "grammar-reconstructed-differently", "text": text, "spelling": what, "written": format!("{rules:?}"), "read_back": format!("{got:?}"), "features": features()})),
        Err(e) => stats.violation_class(&format!("legal-spelling-rejected.{}", what.split(':').next().unwrap()), json!({"kind": "legal-spelling-not-read", "text": text, "spelling": what, "written": format!("{rules:?}"), "problem": e, "features": features()})),
    }
}

fn plain() -> Spelling {
    Spelling { escape: None, parens: None, leading_bar: None, omit_zero: false }
}

fn check_grammar(rules: &[Rule], stats: &mut Stats, two_gap_devs: bool) {
    let toks = print_rules(rules, &plain());
    check(rules, &join(&toks, &[], None), "canonical", stats);
    // every gap x every filler
    for g in 1..toks.len() {
        for f in GAPS {
            if *f == " " {
                continue;
            }
            check(rules, &join(&toks, &[(g, f)], None), &format!("gap:{g}:{f:?}"), stats);
        }
    }
    if two_gap_devs {
        for g1 in 1..toks.len() {
            for g2 in g1 + 1..toks.len() {
                for (f1, f2) in [("", ""), ("", "// c\n"), (" /* c */ ", ""), ("\n", "\t")] {
                    check(rules, &join(&toks, &[(g1, f1), (g2, f2)], None), "two-gaps", stats);
                }
            }
        }
    }
    // all gaps filled with the same filler
    for f in GAPS {
        let devs: Vec<(usize, &str)> = (1..toks.len()).map(|g| (g, *f)).collect();
        check(rules, &join(&toks, &devs, None), &format!("all-gaps:{f:?}"), stats);
    }
    // doc comments
    for d in ["//! grammar doc\n", "/// rule doc\n", "//! g\n//! h\n/// r\n", "//!\n", "/// a\rb\n", "//! x\ry \u{1f600}\r\n/// \"q\" = { }\u{1f600}\n", "///\r\n"] {
        check(rules, &join(&toks, &[], Some(d)), "docs", stats);
    }
    // redundant parentheses around each node
    let nodes: usize = rules.iter().map(|r| count_nodes(&r.expr)).sum();
    for n in 0..nodes {
        let sp = Spelling { parens: Some(n), ..plain() };
        check(rules, &join(&print_rules(rules, &sp), &[], None), &format!("parens:{n}"), stats);
    }
    // leading `|` in front of each expression
    let exprs: usize = rules.iter().map(|r| expr_positions(&r.expr)).sum();
    for n in 0..exprs {
        let sp = Spelling { leading_bar: Some(n), ..plain() };
        let t = print_rules(rules, &sp);
        if t != toks {
            check(rules, &join(&t, &[], None), &format!("leading-bar:{n}"), stats);
            // combined with redundant parentheses (a second deviation)
            if two_gap_devs {
                for p in 0..nodes {
                    let sp = Spelling { leading_bar: Some(n), parens: Some(p), ..plain() };
                    check(rules, &join(&print_rules(rules, &sp), &[], None), "leading-bar+parens", stats);
                }
            }
        }
    }
    // escape respellings of each character of each literal
    let mut lits = vec![];
    for r in rules {
        literals(&r.expr, &mut lits);
    }
    for (li, l) in lits.iter().enumerate() {
        for (ci, _) in l.chars().enumerate() {
            for st in 0..3u8 {
                let sp = Spelling { escape: Some((li, ci, st)), ..plain() };
                let t = print_rules(rules, &sp);
                if t != toks {
                    check(rules, &join(&t, &[], None), &format!("escape:{st}"), stats);
                }
            }
        }
    }
    // PEEK[..j]
    let sp = Spelling { omit_zero: true, ..plain() };
    let t = print_rules(rules, &sp);
    if t != toks {
        check(rules, &join(&t, &[], None), "peek-omitted-zero", stats);
    }
}

pub fn run(quick: bool, w: &mut Worker, stats: &mut Stats) {
    let types = [RuleType::Normal, RuleType::Silent, RuleType::Atomic, RuleType::CompoundAtomic, RuleType::NonAtomic];
    let mut idx = 0u64;
    let mut unit = |w: &mut Worker, stats: &mut Stats, rules: Vec<Rule>, two: bool| {
        idx += 1;
        if !w.mine(idx) {
            return;
        }
        if idx % 64 == (w.shard as u64) % 64 && !w.begin(|| format!("{rules:?}")) {
            return;
        }
        stats.inc("grammars");
        if stats.samples.len() < 3 && idx % 997 == 0 {
            stats.sample(|| json!({"written": format!("{:?}", rules), "canonical_text": join(&print_rules(&rules, &plain()), &[], None)}));
        }
        check_grammar(&rules, stats, two);
    };
    // slice A: leaf variety — every leaf under every operator, every modifier on the bare leaves
    let full = leaves_full();
    let by_a = by_size(&full, 3, false);
    for (size, level) in by_a.iter().enumerate() {
        for (i, e) in level.iter().enumerate() {
            let ty = types[i % types.len()];
            unit(w, stats, vec![Rule { name: "r".into(), ty, expr: e.clone() }], size <= 1 && !quick);
        }
    }
    // slice B: structure — both association shapes, all precedence interactions
    let small = vec![Expr::Ident("a".into()), Expr::Str("b".into())];
    let by_b = by_size(&small, if quick { 5 } else { 6 }, true);
    for (size, level) in by_b.iter().enumerate().skip(3) {
        for (i, e) in level.iter().enumerate() {
            let ty = types[i % types.len()];
            unit(w, stats, vec![Rule { name: "r".into(), ty, expr: e.clone() }], size <= 4 && !quick);
        }
    }
    // full operator set on the small leaves up to size 3
    let by_c = by_size(&small, 3, false);
    for level in by_c.iter().skip(2) {
        for (i, e) in level.iter().enumerate() {
            unit(w, stats, vec![Rule { name: "r".into(), ty: types[(i + 2) % types.len()], expr: e.clone() }], !quick);
        }
    }
    // two rules (rule separator gaps, doc comments between rules)
    for t1 in types {
        for t2 in types {
            unit(w, stats, vec![Rule { name: "r".into(), ty: t1, expr: Expr::Seq(Box::new(Expr::Ident("s".into())), Box::new(Expr::Str("x".into()))) }, Rule { name: "s".into(), ty: t2, expr: Expr::Choice(Box::new(Expr::Str("a".into())), Box::new(Expr::NegPred(Box::new(Expr::Ident("r".into()))))) }], true);
        }
    }
    stats.max("expression_size_structural", if quick { 5 } else { 6 });
}

pub fn replay_text(text: &str) -> String {
    format!("{:?}", read_back(text))
}
