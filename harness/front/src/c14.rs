//! C14 — the bootstrapped grammar parser is the parser its grammar file denotes.
//! Three implementations of meta/src/grammar.pest must agree on every text and every rule:
//! (1) the checked-in generated parser (pest_meta::parser, grammar.rs), (2) the same grammar file
//! run through the current optimizer and the VM, (3) a parser derived from the grammar file at
//! harness build time with the current generator.
use crate::frag;
use crate::gen::{fresh, CHECKED_IN_RULES, FRESH_RULES, META_GRAMMAR};
use pest::error::{Error, ErrorVariant, InputLocation};
use pest::iterators::Pairs;
use pest::{Parser, RuleType, Token};
use pest_vm::Vm;
use vcore::pool::Worker;
use vcore::{catch, json, Stats};

#[derive(PartialEq, Eq, Debug, Clone)]
pub enum Out {
    Ok(Vec<(bool, String, usize)>),
    Err { pos: usize, positives: Vec<String>, negatives: Vec<String>, custom: Option<String> },
    Panic(String),
}

fn name_of<R: RuleType>(r: &R) -> String {
    // derived enums print raw identifiers without the r# prefix; the VM uses &str (quoted by Debug)
    format!("{r:?}").trim_matches('"').to_string()
}

fn norm<R: RuleType>(r: Result<Pairs<'_, R>, Error<R>>) -> Out {
    match r {
        Ok(p) => Out::Ok(
            p.tokens()
                .map(|t| match t {
                    Token::Start { rule, pos } => (true, name_of(&rule), pos.pos()),
                    Token::End { rule, pos } => (false, name_of(&rule), pos.pos()),
                })
                .collect(),
        ),
        Err(e) => {
            let pos = match e.location {
                InputLocation::Pos(p) => p,
                InputLocation::Span((a, _)) => a,
            };
            match e.variant {
                ErrorVariant::ParsingError { positives, negatives } => {
                    let mut p: Vec<String> = positives.iter().map(name_of).collect();
                    let mut n: Vec<String> = negatives.iter().map(name_of).collect();
                    p.sort();
                    n.sort();
                    Out::Err { pos, positives: p, negatives: n, custom: None }
                }
                ErrorVariant::CustomError { message } => Out::Err { pos, positives: vec![], negatives: vec![], custom: Some(message) },
            }
        }
    }
}

pub struct Three {
    pub vm: Vm,
    /// rule names known to all three implementations
    pub common: Vec<&'static str>,
}

pub fn setup(stats: &mut Stats) -> Option<Three> {
    let (_, opt) = match pest_meta::parse_and_optimize(META_GRAMMAR) {
        Ok(x) => x,
        Err(e) => {
            stats.violation_class("meta-grammar-rejected", json!({"kind": "grammar.pest is rejected by the current front-end", "errors": e.iter().map(|x| x.to_string()).collect::<Vec<_>>()}));
            return None;
        }
    };
    let vm_names: Vec<String> = opt.iter().map(|r| r.name.clone()).collect();
    let a: Vec<&str> = CHECKED_IN_RULES.iter().map(|x| x.0).collect();
    let b: Vec<&str> = FRESH_RULES.iter().map(|x| x.0).collect();
    let mut common = vec![];
    for n in &a {
        let in_b = b.contains(n);
        let in_vm = *n == "EOI" || vm_names.iter().any(|v| v == n);
        if in_b && in_vm {
            common.push(*n);
        } else {
            stats.violation_class("rule-sets-differ", json!({"kind": "rule-sets-differ", "rule": n, "in_checked_in_parser": true, "in_fresh_parser": in_b, "in_grammar_file": in_vm}));
        }
    }
    for n in &b {
        if !a.contains(n) {
            stats.violation_class("rule-sets-differ", json!({"kind": "rule-sets-differ", "rule": n, "in_checked_in_parser": false, "in_fresh_parser": true}));
        }
    }
    Some(Three { vm: Vm::new(opt), common })
}

pub fn three_way(t: &Three, rule: &str, text: &str) -> (Out, Out, Out) {
    let a = CHECKED_IN_RULES.iter().find(|x| x.0 == rule).unwrap().1;
    let c = FRESH_RULES.iter().find(|x| x.0 == rule).unwrap().1;
    let o1 = catch(|| norm(pest_meta::parser::parse(a, text))).unwrap_or_else(Out::Panic);
    let o2 = catch(|| norm(t.vm.parse(rule, text))).unwrap_or_else(Out::Panic);
    let o3 = catch(|| norm(fresh::FreshMeta::parse(c, text))).unwrap_or_else(Out::Panic);
    (o1, o2, o3)
}

fn show(o: &Out) -> String {
    match o {
        Out::Ok(t) => format!("Ok {}", t.iter().map(|(s, r, p)| format!("{}{}@{}", if *s { "<" } else { ">" }, r, p)).collect::<Vec<_>>().join(" ")),
        Out::Err { pos, positives, negatives, custom } => format!("Err pos {pos} +{positives:?} -{negatives:?} {custom:?}"),
        Out::Panic(p) => format!("PANIC {p}"),
    }
}

fn check(t: &Three, rule: &str, text: &str, origin: &str, stats: &mut Stats) {
    let (a, b, c) = three_way(t, rule, text);
    stats.inc("evaluations");
    stats.inc("programs");
    let ok = matches!(a, Out::Ok(_));
    if ok || matches!(&a, Out::Err { pos, .. } if *pos > 0) {
        stats.inc("distinct_nontrivial");
    }
    if a == b && b == c {
        stats.outcome(&format!("{}:{}", if ok { "ok" } else { "err" }, if rule == "grammar_rules" { "top" } else { "sub-rule" }));
        if ok && rule != "grammar_rules" && stats.samples.len() < 4 && text.len() > 2 {
            stats.sample(|| json!({"rule": rule, "text": text, "all_three": show(&a)}));
        }
        return;
    }
    stats.inc("disagreements_checked");
    let class = if a != c && b == c { "checked-in-parser-differs-from-its-grammar" } else if a == c { "vm-differs-from-generated" } else { "three-way-disagreement" };
    stats.violation_class(class, json!({"kind": class, "rule": rule, "text": text, "origin": origin, "checked_in_grammar_rs": show(&a), "vm_on_grammar_pest": show(&b), "freshly_generated": show(&c), "features": if cfg!(feature = "extras") { "grammar-extras" } else { "default" }}));
}

pub fn run(quick: bool, w: &mut Worker, stats: &mut Stats) {
    let Some(t) = setup(stats) else { return };
    let mut idx = 0u64;
    let mut unit = |w: &mut Worker, stats: &mut Stats, text: &str, origin: &str, all_rules: bool| {
        idx += 1;
        if !w.mine(idx) {
            return;
        }
        if idx % 256 == (w.shard as u64) % 256 && !w.begin(|| format!("{origin}: {text}")) {
            return;
        }
        if all_rules {
            for r in &t.common {
                check(&t, r, text, origin, stats);
            }
        } else {
            check(&t, "grammar_rules", text, origin, stats);
        }
    };
    // fragment sequences: top rule for all, every rule for the short ones
    let k = if quick { 3 } else { 4 };
    unit(w, stats, "", "fragments", true);
    for kk in 1..=k {
        for first in 0..frag::FRAGMENTS.len() {
            frag::for_sequences(frag::FRAGMENTS, kk, first, "", "", &mut |x| unit(w, stats, x, "fragments", kk <= 2));
        }
    }
    for t in frag::long_texts() {
        unit(w, stats, &t, "long-texts", false);
    }
    let kb = if quick { 3 } else { 4 };
    for kk in 1..=kb {
        for first in 0..frag::BODY_FRAGMENTS.len() {
            frag::for_sequences(frag::BODY_FRAGMENTS, kk, first, "r = { ", " }", &mut |x| unit(w, stats, x, "rule-body", false));
            // rule bodies without the frame, against the expression-level rules
            if kk <= 3 {
                frag::for_sequences(frag::BODY_FRAGMENTS, kk, first, "", "", &mut |x| unit(w, stats, x, "body-fragments", true));
            }
        }
    }
    // real grammars, their prefixes, and their lexeme windows against every rule
    for (path, text) in crate::c09::real_grammars() {
        unit(w, stats, &text, &path, true);
        let step = if quick { 7 } else { 1 };
        for (n, (i, _)) in text.char_indices().enumerate() {
            if n % step == 0 {
                unit(w, stats, &text[..i], &format!("prefix of {path}"), false);
            }
        }
        let lex = frag::lexemes(&text);
        for win in 1..=3 {
            for ws in lex.windows(win) {
                let (a, b) = (ws[0].0, ws[win - 1].1);
                if text[a..b].trim().is_empty() {
                    continue;
                }
                unit(w, stats, &text[a..b], &format!("lexeme window of {path}"), true);
            }
        }
    }
    stats.max("fragment_sequence_length", k as u64);
}
