//! Explorer for the grammar front-end properties: C07 (reader round trip), C09 (totality),
//! C14 (bootstrapped parser == its grammar). Worker processes (a front-end abort or hang is a
//! result about the text being read).
mod c07;
mod c09;
mod c14;
mod frag;
#[allow(non_camel_case_types, clippy::all)]
mod gen {
    include!(concat!(env!("OUT_DIR"), "/gen.rs"));
}

use vcore::pool::{self, PoolOpts, Worker};
use vcore::verdict;
use vcore::{json, Cfg, Stats};

fn prop(cfg: &Cfg) -> String {
    cfg.opt("--prop").unwrap_or_else(|| {
        eprintln!("usage: front --prop=C07|C09|C14 [--tier quick|thorough]");
        std::process::exit(2)
    })
}

fn worker_main(cfg: &Cfg, mut w: Worker) -> ! {
    vcore::quiet_panics();
    let mut stats = Stats::new();
    match prop(cfg).as_str() {
        "C07" => c07::run(cfg.quick(), &mut w, &mut stats),
        "C09" => c09::run(cfg.quick(), &mut w, &mut stats),
        "C14" => c14::run(cfg.quick(), &mut w, &mut stats),
        o => {
            eprintln!("unknown property {o}");
            std::process::exit(2)
        }
    }
    w.finish(stats)
}

fn main() {
    let cfg = Cfg::from_env();
    if cfg.has("--witness-child") {
        let text = std::env::var("VERIF_TEXT").expect("VERIF_TEXT");
        let r = c09::front_end(&text);
        println!("RETURNED {}", r.is_ok());
        std::process::exit(if r.is_ok() { 0 } else { 3 });
    }
    if let Some(w) = Worker::from_env() {
        worker_main(&cfg, w);
    }
    let property = prop(&cfg);
    if let Some(path) = &cfg.replay {
        vcore::quiet_panics();
        let case = verdict::load_replay(path);
        let text = case["text"].as_str().or(case["grammar"].as_str()).unwrap_or("");
        let ok = match property.as_str() {
            "C09" => {
                let r = c09::front_end(text);
                println!("text: {text:?}\nfront end: {r:?}");
                r.is_ok()
            }
            "C07" => {
                println!("text: {text:?}\nread back: {}\nwritten:   {}", c07::replay_text(text), case["written"].as_str().unwrap_or(""));
                c07::replay_text(text) == format!("Ok({})", case["written"].as_str().unwrap_or(""))
            }
            "C14" => {
                let mut st = Stats::new();
                match c14::setup(&mut st) {
                    Some(t) => {
                        let rule = case["rule"].as_str().unwrap_or("grammar_rules");
                        let (a, b, c) = c14::three_way(&t, rule, text);
                        println!("rule {rule} text {text:?}\n checked-in: {a:?}\n vm:         {b:?}\n fresh:      {c:?}");
                        a == b && b == c
                    }
                    None => false,
                }
            }
            _ => true,
        };
        if ok {
            println!("replay: property holds on this case");
            std::process::exit(0)
        }
        println!("VIOLATION property={property} replay={path}");
        std::process::exit(1)
    }
    let mut stats = Stats::new();
    let me = std::env::current_exe().unwrap();
    let configs: Vec<(&str, std::path::PathBuf)> = vec![("default", me.with_file_name("front")), ("grammar-extras", me.with_file_name("frontx"))];
    for (name, exe) in configs {
        if cfg.opt("--only").map_or(false, |o| o != name) {
            continue;
        }
        if !exe.exists() {
            stats.failures.push(format!("binary for feature configuration {name} not built: {}", exe.display()));
            continue;
        }
        let mut opts = PoolOpts::new(cfg.jobs);
        opts.exe = Some(exe);
        opts.stall_secs = 20;
        opts.mem_mib = 4096;
        opts.max_resumes = 12;
        let res = pool::run_pool(&opts);
        let mut s = res.stats;
        for (shard, d, case) in &res.deaths {
            s.violation_class("front-end-aborts-or-hangs", json!({"kind": "front-end-did-not-return", "features": name, "shard": shard, "how": format!("{d:?}"), "text": case}));
        }
        stats.add(&format!("evaluations.{name}"), s.get("evaluations"));
        stats.merge(s);
    }
    if property == "C09" {
        c09_witnesses(&mut stats);
    }
    let (level, rule, assumptions): (&str, &str, Vec<String>) = match property.as_str() {
        "C09" => (
            "exploration",
            "texts: (i) all sequences of <= k fragments over a 70-fragment alphabet of pest syntax (identifiers, every bracket/operator/modifier, terminated and unterminated literals, ranges, every escape form incl. surrogate / out-of-range / short / unknown ones, repetition counts incl. 0, inverted and u32-overflowing ones, PUSH/PEEK/PUSH_LITERAL/tag forms incl. overflowing slice indices, comment and doc-comment openers/closers, non-ASCII and 4-byte characters, CRLF) and all sequences of <= kb body fragments inside two rule frames; (ii) every real grammar of the repository, each of its prefixes at a character boundary, and every single-lexeme deletion, duplication and substitution by alphabet fragments; (iii) nesting/length sweeps up to the stated depth; (iv) all three-rule grammars r/NEWLINE/eol whose bodies are one of 7 reference shapes (bare, choice, optional, (!X ~ ANY)*, prefix, suffix, star) around any of the three names, with rule modifiers; (v) WHITESPACE/COMMENT spelled over several lines with bad bodies next to a second error; long texts of every token kind. Short texts are run a second time with detailed error tracking on, and every text also through the route reader -> consume_rules -> optimize. For each text parse_and_optimize (reader + validator + optimizer) and docs::consume must return without panic/abort/hang (worker processes with a 20 s watchdog), and every reported error must be located inside the text on character boundaries and render (also after renamed_rules). Non-trivial: texts that are accepted or contain a rule definition",
            vec!["repetition counts are kept <= 64 except the explicit overflow literals, which must be rejected (the property bounds the counts)".into(), "time is observed against a watchdog, not proven".into()],
        ),
        "C07" => (
            "exploration",
            "abstract rule sets: (A) every leaf kind (identifiers incl. built-in-like names, strings with quotes/backslashes/control/non-ASCII/comment-like content, case-insensitive strings, ranges with escaped bounds, every PEEK[i..j] for i,j in -2..2/None, extras: PUSH_LITERAL) bare and under every operator (13 unary incl. bounded repetitions with counts 0,1,2,10; extras: node tags), with every rule modifier; (B) all trees up to the stated size over two leaves with one operator per precedence class plus ~ and | in both association shapes; (C) two-rule grammars. Each is printed with only the parentheses precedence requires and then respelled: every gap x 7 fillers (none, newline, tab, block comment, line comment, nested block comment, CRLF), all gaps at once, doc comments, redundant parentheses around each node, a leading | before each expression, each literal character as \\xNN / \\u{NN} / \\u{00NNNN}, PEEK[..j]; thorough adds pairs of deviations. parser::parse + consume (hook H4, no validator) must return exactly the abstract rules. Non-trivial: every non-canonical spelling",
            vec!["\\xNN denotes U+00NN for all NN (the reader's reading; Rust stops at \\x7F)".into(), "identifiers beginning with PUSH are not legal concrete syntax and are not generated".into()],
        ),
        "C14" => (
            "translation_validation",
            "program = one (rule of the meta grammar, text) pair executed by three implementations of meta/src/grammar.pest: the checked-in generated parser, the VM on parse_and_optimize(grammar.pest), and a parser derived at harness build time; texts = the C09 fragment sequences (top rule; all rules for <= 2 fragments and for bare body fragments), every real grammar of the repository with its prefixes, and every window of 1-3 lexemes of those grammars against every rule. Agreement = same token tree, or same error position and same expected/unexpected rule-name sets. Rule sets of the three are compared first",
            vec!["a grammar.pest that gains or loses rules without regenerating grammar.rs is reported as rule-sets-differ (unless the harness no longer compiles, which is a machinery failure, exit 2)".into()],
        ),
        _ => ("exploration", "", vec![]),
    };
    let mut cov = vcore::Map::new();
    cov.insert("rule".into(), json!(rule));
    if property == "C14" {
        cov.insert("programs".into(), json!(stats.get("programs")));
        cov.insert("disagreements_checked".into(), json!(stats.get("disagreements_checked")));
    }
    verdict::conclude(verdict::Report { property: &property, level, cfg: &cfg, stats, coverage: cov, assumptions })
}

/// Directed witnesses of the two recorded C09 findings, each run in a sacrificial child with a
/// 5 s budget. A witness that aborts / hangs is a violation unless the finding is listed as open.
fn c09_witnesses(stats: &mut Stats) {
    use std::io::Read;
    let known = verdict::Known::load();
    let deep = format!("r = {{ {}\"a\"{} }}", "(".repeat(4096), ")".repeat(4096));
    let sample2 = std::fs::read_to_string("/repo/meta/resources/test/fuzzsample2.grammar").unwrap_or_default();
    let cases: Vec<(&str, String, String)> = vec![
        ("deep-nesting-stack-overflow", deep, "r = { (^4096 \"a\" )^4096 }".to_string()),
        ("comment-backtracking-blowup", sample2.clone(), "meta/resources/test/fuzzsample2.grammar (237 bytes of interleaved /* and // openers)".to_string()),
    ];
    for (pred, text, label) in cases {
        if text.is_empty() {
            continue;
        }
        let exe = std::env::current_exe().unwrap();
        let mut child = std::process::Command::new(exe)
            .args(["--prop=C09", "--witness-child"])
            .env("VERIF_TEXT", &text)
            .env_remove("VERIF_WORKER")
            .stdout(std::process::Stdio::piped())
            .stderr(std::process::Stdio::null())
            .spawn()
            .expect("spawn witness child");
        let t0 = std::time::Instant::now();
        let how = loop {
            match child.try_wait() {
                Ok(Some(st)) => {
                    let mut out = String::new();
                    let _ = child.stdout.take().unwrap().read_to_string(&mut out);
                    use std::os::unix::process::ExitStatusExt;
                    break if out.contains("RETURNED") { None } else { Some(format!("aborted (signal {:?}, code {:?})", st.signal(), st.code())) };
                }
                Ok(None) => {}
                Err(e) => break Some(format!("wait failed: {e}")),
            }
            if t0.elapsed() > std::time::Duration::from_secs(5) {
                let _ = child.kill();
                let _ = child.wait();
                break Some("did not return within 5 s".to_string());
            }
            std::thread::sleep(std::time::Duration::from_millis(5));
        };
        stats.inc("evaluations");
        match how {
            None => println!("note: the recorded finding `{pred}` no longer reproduces on its witness ({label})"),
            Some(h) => {
                let case = json!({"kind": "front-end-did-not-return", "text": label, "how": h, "witness_of": pred});
                if known.open("C09", pred) {
                    stats.known(pred, || case.clone());
                } else {
                    stats.violation_class("front-end-aborts-or-hangs", case);
                }
            }
        }
    }
}
