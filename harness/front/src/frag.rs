//! Fragment alphabets of pest's concrete syntax and their enumeration.
pub const FRAGMENTS: &[&str] = &[
    "a", "b_1", " ", "=", "_", "@", "$", "!", "{", "}", "(", ")", "[", "]", "~", "|", "?", "*", "+", "&", "\"a\"", "\"a", "'a'", "'a", "'a'..'b'", "..", "^\"a\"", "^", "\"\\u{D800}\"",
    "\"\\u{DFFF}\"", "\"\\u{DFFE}\"", "\"\\u{E000}\"", "\"\\u{D7FF}\"", "\"\\u{10FFFF}\"", "\"\\u{110000}\"", "\"\\u{0}\"", "\"\\x8\"", "\"\\q\"", "\"\\u{41}\"", "'\\u{D800}'..'a'", "{0}", "{3}", "{1,}", "{,2}", "{1,2}", "{2,1}", "{,0}", "{1,0}", "{0,0}", "{0,1}", "{2,2}", "{00}", "{000}", "{,00}", "{0,00}", "{00,1}", "{01}", "{4294967296}", "{1,99999999999}",
    "PUSH", "PUSH(", "PEEK", "PEEK[", "PEEK[1..2]", "PEEK[99999999999..]", "PEEK[..-99999999999]", "PEEK[-1..]", "PUSH_LITERAL(\"a\")", "PUSH_LITERAL(", "#t =", "#", "//", "///", "//!", "/*", "*/", "é",
    "😀", "\r\n", "\n", ",", "-1", "0", "r = {", "ANY", "WHITESPACE",
    // characters that tools like to treat specially: byte order mark, NUL, line separator
    "\u{feff}", "\0", "\u{2028}",
    // characters whose low byte is an ASCII letter / digit / hex digit
    "\u{161}", "\u{132}", "\u{141}",
];

/// Fragments that can occur inside a rule body (used for the deeper body-only enumeration).
pub const BODY_FRAGMENTS: &[&str] = &[
    "a", " ", "!", "(", ")", "~", "|", "?", "*", "+", "&", "\"a\"", "'a'..'b'", "^\"a\"", "{3}", "{1,}", "{,2}", "{2,1}", "{1,0}", "{0,1}", "{00}", "{,00}", "PUSH(", "PEEK[1..2]", "PEEK[99999999999..]", "PUSH_LITERAL(\"a\")", "#t =", "\"\\u{D800}\"",
    "/*", "*/", "//", "\n", "é", "}", "{", "r", "=", "ANY",
];

/// Call `f` with every concatenation of exactly `k` fragments whose first fragment is `first`.
pub fn for_sequences(frags: &[&str], k: usize, first: usize, prefix: &str, suffix: &str, f: &mut dyn FnMut(&str)) {
    let mut idx = vec![0usize; k];
    idx[0] = first;
    let mut buf = String::new();
    loop {
        buf.clear();
        buf.push_str(prefix);
        for i in &idx {
            buf.push_str(frags[*i]);
        }
        buf.push_str(suffix);
        f(&buf);
        let mut p = k;
        loop {
            if p == 1 {
                return;
            }
            p -= 1;
            idx[p] += 1;
            if idx[p] < frags.len() {
                break;
            }
            idx[p] = 0;
        }
    }
}

/// Crude lexer of a grammar text into lexemes (identifiers, literals, numbers, punctuation,
/// whitespace runs, comments) — the "fragment positions" of a real grammar.
pub fn lexemes(text: &str) -> Vec<(usize, usize)> {
    let b: Vec<(usize, char)> = text.char_indices().collect();
    let mut out = vec![];
    let mut i = 0;
    let at = |i: usize| b.get(i).map(|x| x.1);
    let off = |i: usize| b.get(i).map(|x| x.0).unwrap_or(text.len());
    while i < b.len() {
        let s = i;
        let c = b[i].1;
        if c.is_alphanumeric() || c == '_' {
            while at(i).map_or(false, |c| c.is_alphanumeric() || c == '_') {
                i += 1;
            }
        } else if c.is_whitespace() {
            while at(i).map_or(false, |c| c.is_whitespace()) {
                i += 1;
            }
        } else if c == '"' || c == '\'' {
            i += 1;
            while let Some(d) = at(i) {
                i += 1;
                if d == '\\' {
                    i += 1;
                } else if d == c || d == '\n' {
                    break;
                }
            }
        } else if c == '/' && at(i + 1) == Some('/') {
            while at(i).map_or(false, |c| c != '\n') {
                i += 1;
            }
        } else if c == '/' && at(i + 1) == Some('*') {
            i += 2;
            while i < b.len() && !(at(i) == Some('*') && at(i + 1) == Some('/')) {
                i += 1;
            }
            i = (i + 2).min(b.len());
        } else if c == '.' && at(i + 1) == Some('.') {
            i += 2;
        } else {
            i += 1;
        }
        out.push((off(s), off(i)));
    }
    out
}


/// Long texts: every kind of token far longer than any counter or buffer a tool might keep
/// (comments, literals, identifiers, rule lists, character ranges).
pub fn long_texts() -> Vec<String> {
    let mut v = vec![];
    for n in [300usize, 1100, 2500] {
        v.push(format!("r = {{ \"a\" }} // {}\n", "x".repeat(n)));
        v.push(format!("/* {} */ r = {{ \"a\" }}", "y".repeat(n)));
        v.push(format!("r = {{ \"{}\" }}", "z".repeat(n)));
        v.push(format!("{} = {{ \"a\" }}", "i".repeat(n)));
        v.push(format!("/// {}\nr = {{ \"a\" }}", "d".repeat(n)));
        v.push(format!("r = {{ {} }}", vec!["'a'..'b'"; n / 10].join(" ~ ")));
        v.push((0..n / 10).map(|i| format!("r{i} = {{ \"a\" }} // c{i}\n")).collect::<String>());
        v.push(format!("r = {{ \"a\" }} // {}\n", "\u{1f600}".repeat(n / 4)));
    }
    v
}
