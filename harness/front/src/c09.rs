//! C09 — the grammar front-end is total: any text yields rules or located, renderable errors.
use crate::frag;
use pest::error::InputLocation;
use pest_meta::parser;
use vcore::pool::Worker;
use vcore::{catch, json, Stats};

/// Run the whole front-end on one text. Ok(class) or Err(problem description).
pub fn front_end(text: &str) -> Result<&'static str, String> {
    let r = catch(|| -> Result<&'static str, String> {
        let class = match pest_meta::parse_and_optimize(text) {
            Ok((_defaults, rules)) => {
                // the optimized rules can be displayed
                for r in &rules {
                    let _ = format!("{}", r.expr);
                }
                "accepted"
            }
            Err(errors) => {
                if errors.is_empty() {
                    return Err("rejected with an empty error list".into());
                }
                for e in errors {
                    let (a, b) = match e.location {
                        InputLocation::Pos(p) => (p, p),
                        InputLocation::Span((a, b)) => (a, b),
                    };
                    if a > b || b > text.len() || !text.is_char_boundary(a) || !text.is_char_boundary(b) {
                        return Err(format!("error location {:?} is not inside the text on character boundaries (len {})", e.location, text.len()));
                    }
                    let shown = format!("{e}");
                    if shown.is_empty() {
                        return Err("error renders as an empty string".into());
                    }
                    let renamed = e.renamed_rules(parser::rename_meta_rule);
                    let _ = format!("{renamed}");
                }
                "rejected"
            }
        };
        // documentation extraction works on whatever the reader accepts
        if let Ok(pairs) = parser::parse(parser::Rule::grammar_rules, text) {
            let d = pest_generator::docs::consume(pairs);
            let _ = d.grammar_doc.len() + d.line_docs.len();
        }
        // the same front-end entered the way pest_vm's own tests (and any tool that skips the
        // pair-level validation) enter it: reader -> consume_rules -> optimize
        if let Ok(pairs) = parser::parse(parser::Rule::grammar_rules, text) {
            match parser::consume_rules(pairs) {
                Ok(rules) => {
                    // (undefined names are reported by validate_pairs only; this route must cope with them)
                    let opt = pest_meta::optimizer::optimize(rules);
                    let _ = opt.len();
                }
                Err(errors) => {
                    for e in errors {
                        let _ = format!("{e}");
                    }
                }
            }
        }
        Ok(class)
    });
    match r {
        Ok(x) => x,
        Err(p) => Err(format!("panicked: {p}")),
    }
}

fn features() -> &'static str {
    if cfg!(feature = "extras") {
        "grammar-extras"
    } else {
        "default"
    }
}

/// Syntactic classification used by known-finding predicates (none open at the moment).
fn check(text: &str, origin: &str, stats: &mut Stats) {
    stats.inc("evaluations");
    match front_end(text) {
        Ok(class) => {
            stats.outcome(class);
            if class == "accepted" || text.contains('=') {
                stats.inc("distinct_nontrivial");
            }
            // short texts once more with detailed error tracking on (the reader is itself a pest parser;
            // the switch is process-wide and this worker is single-threaded)
            if text.len() <= 24 {
                pest::set_error_detail(true);
                let again = front_end(text);
                pest::set_error_detail(false);
                stats.inc("evaluations");
                stats.inc("evaluations.error-detail-on");
                match again {
                    Ok(c2) if c2 == class => {}
                    Ok(c2) => stats.violation_class("error-detail-changes-the-outcome", json!({"kind": "front-end-outcome-differs-with-error-detail", "text": text, "detail_off": class, "detail_on": c2, "origin": origin, "features": features()})),
                    Err(problem) => stats.violation_class(&format!("front-end-panics(detail on):{}", problem.chars().skip(10).take(40).collect::<String>()), json!({"kind": "front-end-panics", "error_detail": true, "text": text, "problem": problem, "origin": origin, "features": features()})),
                }
            }
            if class == "accepted" && stats.get("accepted") % 50_000 == 0 {
                stats.sample(|| json!({"text": text, "outcome": class, "origin": origin}));
            }
            stats.inc(class);
        }
        Err(problem) => {
            let class: String = if problem.starts_with("panicked") { format!("front-end-panics:{}", problem.chars().skip(10).take(48).collect::<String>()) } else { "error-not-located-or-renderable".to_string() };
            stats.violation_class(&class, json!({"kind": class.split(':').next().unwrap_or(""), "text": text, "problem": problem, "origin": origin, "features": features()}));
        }
    }
}

pub fn real_grammars() -> Vec<(String, String)> {
    let mut v = vec![];
    let mut add = |p: &str| {
        if let Ok(s) = std::fs::read_to_string(p) {
            v.push((p.to_string(), s));
        }
    };
    add("/repo/meta/src/grammar.pest");
    for dir in ["/repo/grammars/src/grammars", "/repo/derive/tests", "/repo/vm/tests", "/repo/derive/examples", "/repo/generator/tests", "/repo/debugger/tests"] {
        if let Ok(rd) = std::fs::read_dir(dir) {
            let mut names: Vec<_> = rd.filter_map(|e| e.ok()).map(|e| e.path()).filter(|p| p.extension().map_or(false, |x| x == "pest")).collect();
            names.sort();
            for n in names {
                add(n.to_str().unwrap());
            }
        }
    }
    v
}

pub fn run(quick: bool, w: &mut Worker, stats: &mut Stats) {
    let mut idx: u64 = 0;
    // every unit of work is announced, so that an abort or hang is attributed to its text
    let mut unit = |w: &mut Worker, stats: &mut Stats, text: &str, origin: &str| {
        idx += 1;
        if !w.mine(idx) {
            return;
        }
        if !w.begin(|| format!("{origin}: {text}")) {
            return;
        }
        check(text, origin, stats);
    };
    // (i) fragment sequences
    let k = if quick { 3 } else { 4 };
    unit(w, stats, "", "fragments");
    for kk in 1..=k {
        for first in 0..frag::FRAGMENTS.len() {
            frag::for_sequences(frag::FRAGMENTS, kk, first, "", "", &mut |t| unit(w, stats, t, "fragments"));
        }
    }
    stats.max("fragment_sequence_length", k as u64);
    // rule-body sequences inside `r = { ... }`
    let kb = if quick { 4 } else { 5 };
    for kk in 1..=kb {
        for first in 0..frag::BODY_FRAGMENTS.len() {
            frag::for_sequences(frag::BODY_FRAGMENTS, kk, first, "r = { ", " }", &mut |t| unit(w, stats, t, "rule-body"));
            if kk <= 3 || (!quick && kk <= kb - 1) {
                frag::for_sequences(frag::BODY_FRAGMENTS, kk, first, "a = @{ \"x\" } WHITESPACE = _{ \" \" } r = ${ a ~ ", " }", &mut |t| unit(w, stats, t, "rule-body-2"));
            }
        }
    }
    stats.max("body_sequence_length", kb as u64);
    // (ii) real grammars: every prefix, every single-lexeme deletion / duplication / substitution
    for (path, text) in real_grammars() {
        unit(w, stats, &text, &path);
        for (i, _) in text.char_indices() {
            unit(w, stats, &text[..i], &format!("prefix of {path}"));
        }
        let lex = frag::lexemes(&text);
        let subs: Vec<&str> = if quick || text.len() > 1500 { frag::FRAGMENTS.iter().step_by(4).copied().collect() } else { frag::FRAGMENTS.to_vec() };
        for (li, (a, b)) in lex.iter().enumerate() {
            if text[*a..*b].trim().is_empty() && li % 3 != 0 {
                continue;
            }
            let del = format!("{}{}", &text[..*a], &text[*b..]);
            unit(w, stats, &del, &format!("deletion in {path}"));
            let dup = format!("{}{}{}", &text[..*b], &text[*a..*b], &text[*b..]);
            unit(w, stats, &dup, &format!("duplication in {path}"));
            if quick && text.len() > 1500 && li % 4 != 0 {
                continue;
            }
            for s in &subs {
                let sub = format!("{}{}{}", &text[..*a], s, &text[*b..]);
                unit(w, stats, &sub, &format!("substitution in {path}"));
            }
        }
    }
    // (iv) three-rule grammars whose rules refer to each other in every small shape, one of them
    // carrying a built-in's name (the validator's and the optimizer's walks over rule references)
    {
        let names = ["r", "NEWLINE", "eol"];
        let shapes: [&dyn Fn(&str) -> String; 7] = [
            &|x| x.to_string(),
            &|x| format!("\"a\" | {x}"),
            &|x| format!("{x}?"),
            &|x| format!("(!{x} ~ ANY)*"),
            &|x| format!("\"a\" ~ {x}"),
            &|x| format!("{x} ~ \"a\""),
            &|x| format!("{x}*"),
        ];
        let bodies: Vec<String> = names.iter().flat_map(|n| shapes.iter().map(move |f| f(n))).collect();
        let mods: [&[&str]; 3] = if quick { [&["", "@"], &["", "_"], &["_"]] } else { [&["", "_", "@"], &["", "_", "@"], &["", "_", "@"]] };
        for m0 in mods[0] {
            for b0 in &bodies {
                for m1 in mods[1] {
                    for b1 in &bodies {
                        for m2 in mods[2] {
                            for b2 in &bodies {
                                unit(w, stats, &format!("r = {m0}{{ {b0} }} NEWLINE = {m1}{{ {b1} }} eol = {m2}{{ {b2} }}"), "three-rules");
                            }
                        }
                    }
                }
            }
        }
    }
    for t in frag::long_texts() {
        unit(w, stats, &t, "long-texts");
    }
    // (v) WHITESPACE / COMMENT written over several lines with every small bad body, alone and next
    // to a second error elsewhere in the grammar (the validator sorts and merges its error lists)
    for special in ["WHITESPACE", "COMMENT"] {
        for m in ["_", "", "@", "$"] {
            for body in ["\" \"*", "\"\"", "!\"a\"", "\"a\"?", "\" \" | \"\"", "\" \"", "(\"\")*", "zz"] {
                for layout in ["{m}{\n  {b}\n  | \"\\t\"\n}", "{m}{ {b} | \"\\t\" }", "{m}{\r\n{b}\r\n}"] {
                    let def = layout.replace("{m}", m).replace("{b}", body);
                    for other in ["r = { \"a\" }", "r = { \"\"* }", "r = { zz }", "r = { r }", "r = { \"a\" }\nr = { \"b\" }", "r = { (\"a\" | \"\")* }\nq = {\n  !\"a\"+\n}"] {
                        unit(w, stats, &format!("{special} = {def}\n{other}"), "multi-line-specials");
                        unit(w, stats, &format!("{other}\n{special} = {def}"), "multi-line-specials");
                    }
                }
            }
        }
    }
    // (iii) nesting depth sweeps
    let depth = if quick { 256 } else { 512 };
    for n in [1usize, 2, 4, 8, 16, 32, 64, 128, 256, 512].into_iter().filter(|n| *n <= depth) {
        let open = "(".repeat(n);
        let close = ")".repeat(n);
        unit(w, stats, &format!("r = {{ {open}\"a\"{close} }}"), "nesting ( )");
        unit(w, stats, &format!("r = {{ {open}\"a\" }}"), "nesting ( unbalanced");
        unit(w, stats, &format!("r = {{ {}\"a\"{close} }}", "PUSH(".repeat(n)), "nesting PUSH(");
        unit(w, stats, &format!("r = {{ \"a\" }} {}x{}", "/*".repeat(n), "*/".repeat(n)), "nesting /* */");
        unit(w, stats, &format!("r = {{ {}\"a\" }}", "!".repeat(n)), "nesting !");
        unit(w, stats, &format!("r = {{ \"a\"{} }}", "?".repeat(n)), "postfix chain");
        unit(w, stats, &format!("r = {{ {} }}", vec!["\"a\""; n].join(" ~ ")), "long sequence");
        unit(w, stats, &format!("r = {{ {} }}", vec!["\"a\""; n].join(" | ")), "long choice");
    }
    stats.max("nesting_depth", depth as u64);
}
