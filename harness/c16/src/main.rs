//! C16 — Unicode property rules are consistent for every code point.
//! Complete enumeration of all 1,112,064 scalar values x all advertised names x access paths.
use pest::Parser;
use pest_vm::Vm;
use vcore::{json, verdict, Cfg, Stats};

#[allow(non_camel_case_types, clippy::all)]
mod gen {
    include!(concat!(env!("OUT_DIR"), "/gen.rs"));
}
use gen::{GenParser, Rule, FUNCS, GRAMMAR, RULES};

const LEAF_CATEGORIES: [&str; 30] = [
    "UPPERCASE_LETTER", "LOWERCASE_LETTER", "TITLECASE_LETTER", "MODIFIER_LETTER", "OTHER_LETTER", "NONSPACING_MARK", "SPACING_MARK", "ENCLOSING_MARK",
    "DECIMAL_NUMBER", "LETTER_NUMBER", "OTHER_NUMBER", "CONNECTOR_PUNCTUATION", "DASH_PUNCTUATION", "OPEN_PUNCTUATION", "CLOSE_PUNCTUATION",
    "INITIAL_PUNCTUATION", "FINAL_PUNCTUATION", "OTHER_PUNCTUATION", "MATH_SYMBOL", "CURRENCY_SYMBOL", "MODIFIER_SYMBOL", "OTHER_SYMBOL", "SPACE_SEPARATOR",
    "LINE_SEPARATOR", "PARAGRAPH_SEPARATOR", "CONTROL", "FORMAT", "PRIVATE_USE", "UNASSIGNED", "SURROGATE",
];
const GROUPS: [(&str, &[&str]); 8] = [
    ("LETTER", &["UPPERCASE_LETTER", "LOWERCASE_LETTER", "TITLECASE_LETTER", "MODIFIER_LETTER", "OTHER_LETTER"]),
    ("CASED_LETTER", &["UPPERCASE_LETTER", "LOWERCASE_LETTER", "TITLECASE_LETTER"]),
    ("MARK", &["NONSPACING_MARK", "SPACING_MARK", "ENCLOSING_MARK"]),
    ("NUMBER", &["DECIMAL_NUMBER", "LETTER_NUMBER", "OTHER_NUMBER"]),
    ("PUNCTUATION", &["CONNECTOR_PUNCTUATION", "DASH_PUNCTUATION", "OPEN_PUNCTUATION", "CLOSE_PUNCTUATION", "INITIAL_PUNCTUATION", "FINAL_PUNCTUATION", "OTHER_PUNCTUATION"]),
    ("SYMBOL", &["MATH_SYMBOL", "CURRENCY_SYMBOL", "MODIFIER_SYMBOL", "OTHER_SYMBOL"]),
    ("SEPARATOR", &["SPACE_SEPARATOR", "LINE_SEPARATOR", "PARAGRAPH_SEPARATOR"]),
    ("OTHER", &["CONTROL", "FORMAT", "SURROGATE", "PRIVATE_USE", "UNASSIGNED"]),
];

fn func(name: &str) -> Option<fn(char) -> bool> {
    FUNCS.iter().find(|(n, _)| *n == name).map(|(_, f)| *f)
}

fn scalars() -> impl Iterator<Item = char> {
    (0u32..=0x10FFFF).filter_map(char::from_u32)
}

fn viol(st: &mut Stats, class: &str, name: &str, c: char, what: String) {
    st.violation_class(class, json!({"kind": class, "property": name, "code_point": format!("U+{:04X}", c as u32), "what": what}));
}

/// Per-scalar checks through the function path (+ by_name), for the slice of scalars given.
fn check_functions(lo: u32, hi: u32, st: &mut Stats, by: &[(String, Box<dyn Fn(char) -> bool>)], scripts: &[usize], leaf: &[usize], groups: &[(usize, Vec<usize>)]) {
    for c in (lo..hi).filter_map(char::from_u32) {
        st.inc("evaluations");
        let vals: Vec<bool> = FUNCS.iter().map(|(_, f)| f(c)).collect();
        if vals.iter().any(|v| *v) {
            st.inc("distinct_nontrivial");
        }
        // partition into the two-letter categories (SURROGATE never matches a scalar value)
        let n = leaf.iter().filter(|i| vals[**i]).count();
        if n != 1 {
            let which: Vec<&str> = leaf.iter().filter(|i| vals[**i]).map(|i| FUNCS[*i].0).collect();
            viol(st, "category-partition", "general category", c, format!("{n} two-letter categories match: {which:?}"));
        }
        for (g, members) in groups {
            let union = members.iter().any(|i| vals[*i]);
            if vals[*g] != union {
                viol(st, "group-union", FUNCS[*g].0, c, format!("group says {}, union of members says {union}", vals[*g]));
            }
        }
        let ns = scripts.iter().filter(|i| vals[**i]).count();
        if ns > 1 {
            let which: Vec<&str> = scripts.iter().filter(|i| vals[**i]).map(|i| FUNCS[*i].0).collect();
            viol(st, "scripts-overlap", "script", c, format!("{which:?} all match"));
        }
        for (i, (name, f)) in by.iter().enumerate() {
            if f(c) != vals[i] {
                viol(st, "by-name-differs-from-function", name, c, format!("by_name says {}, function says {}", f(c), vals[i]));
            }
        }
    }
}

fn main() {
    let cfg = Cfg::from_env();
    vcore::quiet_panics();
    let names: Vec<&'static str> = pest::unicode::unicode_property_names().collect();
    let mut stats = Stats::new();
    // every advertised name resolves through every path
    let mut by: Vec<(String, Box<dyn Fn(char) -> bool>)> = vec![];
    for (i, n) in names.iter().enumerate() {
        if FUNCS[i].0 != *n {
            stats.failures.push("generated table out of sync".into());
        }
        match pest::unicode::by_name(n) {
            Some(f) => by.push((n.to_string(), f)),
            None => {
                stats.violation_class("name-does-not-resolve", json!({"kind": "name-does-not-resolve", "property": n, "path": "by_name"}));
                by.push((n.to_string(), Box::new(|_| false)));
            }
        }
        if pest_meta::parse_and_optimize(&format!("r = {{ {n} }}")).is_err() {
            stats.violation_class("name-rejected-by-validator", json!({"kind": "name-rejected-by-validator", "property": n}));
        }
    }
    for n in LEAF_CATEGORIES.iter().chain(GROUPS.iter().map(|g| &g.0)) {
        if func(n).is_none() {
            stats.violation_class("category-not-advertised", json!({"kind": "category-not-advertised", "property": n}));
        }
    }
    if let Some(p) = &cfg.replay {
        let case = verdict::load_replay(p);
        println!("replay of C16 cases = rerun of the quick tier; case was {case}");
    }
    let idx = |n: &str| FUNCS.iter().position(|(m, _)| *m == n);
    let leaf: Vec<usize> = LEAF_CATEGORIES.iter().filter_map(|n| idx(n)).collect();
    let groups: Vec<(usize, Vec<usize>)> = GROUPS.iter().filter_map(|(g, ms)| Some((idx(g)?, ms.iter().filter_map(|m| idx(m)).collect()))).collect();
    // scripts = the names advertised after the categories (SCRIPT_PROPERTY_NAMES); identified as
    // "not binary, not category" through the public name lists
    let bin: Vec<&str> = pest::unicode::BINARY_PROPERTY_NAMES.to_vec();
    let cat: Vec<&str> = pest::unicode::CATEGORY_PROPERTY_NAMES.to_vec();
    let scripts: Vec<usize> = names.iter().enumerate().filter(|(_, n)| !bin.contains(n) && !cat.contains(n)).map(|(i, _)| i).collect();
    stats.add("names", names.len() as u64);
    stats.add("script_names", scripts.len() as u64);
    drop(by);
    let jobs = cfg.jobs;
    // ---- function / by_name / partition checks: complete, both tiers
    let step = (0x110000u32 + jobs as u32 - 1) / jobs as u32;
    let parts: Vec<Stats> = std::thread::scope(|sc| {
        let hs: Vec<_> = (0..jobs as u32)
            .map(|j| {
                let (scripts, leaf, groups, names) = (&scripts, &leaf, &groups, &names);
                sc.spawn(move || {
                    let mut st = Stats::new();
                    let by: Vec<(String, Box<dyn Fn(char) -> bool>)> = names.iter().map(|n| (n.to_string(), pest::unicode::by_name(n).unwrap_or_else(|| Box::new(|_| false)))).collect();
                    check_functions(j * step, ((j + 1) * step).min(0x110000), &mut st, &by, scripts, leaf, groups);
                    st
                })
            })
            .collect();
        hs.into_iter().map(|h| h.join().unwrap()).collect()
    });
    for p in parts {
        stats.merge(p);
    }
    // ---- parser paths (VM and generated code)
    let (_, opt) = pest_meta::parse_and_optimize(GRAMMAR).expect("grammar of all property names");
    let vm = Vm::new(opt);
    // a VM without any rule: the property name itself as the start rule
    let bare_vm = Vm::new(vec![]);
    // change points of every property (both neighbours), plus U+0000 and U+10FFFF
    let points: Vec<char> = if cfg.quick() {
        let mut v = vec![];
        let mut prev: Vec<bool> = FUNCS.iter().map(|_| false).collect();
        for c in scalars() {
            let cur: Vec<bool> = FUNCS.iter().map(|(_, f)| f(c)).collect();
            if c == '\0' || cur != prev {
                if let Some(p) = char::from_u32((c as u32).wrapping_sub(1)) {
                    if v.last() != Some(&p) && c != '\0' {
                        v.push(p);
                    }
                }
                v.push(c);
            }
            prev = cur;
        }
        v.push('\u{10FFFF}');
        v.dedup();
        v
    } else {
        scalars().collect()
    };
    stats.add("parser_path_code_points", points.len() as u64);
    let parts: Vec<Stats> = std::thread::scope(|sc| {
        let hs: Vec<_> = (0..jobs)
            .map(|j| {
                let (points, vm, bare_vm, names) = (&points, &vm, &bare_vm, &names);
                sc.spawn(move || {
                    let mut st = Stats::new();
                    let mut buf = String::new();
                    for c in points.iter().skip(j).step_by(jobs) {
                        buf.clear();
                        buf.push(*c);
                        for (i, n) in names.iter().enumerate() {
                            let want = (FUNCS[i].1)(*c);
                            let rule_name = format!("p_{n}");
                            let v = match vcore::catch(|| vm.parse(&rule_name, &buf).map(|p| p.as_str().len() == buf.len()).unwrap_or(false)) {
                                Ok(v) => v,
                                Err(p) => {
                                    viol(&mut st, "vm-panics", n, *c, format!("VM panicked: {p}"));
                                    continue;
                                }
                            };
                            let g = match vcore::catch(|| GenParser::parse(RULES[i].1, &buf).map(|p| p.as_str().len() == buf.len()).unwrap_or(false)) {
                                Ok(v) => v,
                                Err(p) => {
                                    viol(&mut st, "generated-parser-panics", n, *c, format!("generated parser panicked: {p}"));
                                    continue;
                                }
                            };
                            st.inc("evaluations");
                            if want {
                                st.inc("distinct_nontrivial");
                            }
                            if v != want {
                                viol(&mut st, "vm-differs-from-function", n, *c, format!("VM rule matches={v}, function says {want}"));
                            }
                            // a built-in emits no pair, so success is all there is to observe
                            match vcore::catch(|| bare_vm.parse(n, &buf).is_ok()) {
                                Ok(b) if b == want => {}
                                Ok(b) => viol(&mut st, "vm-start-rule-differs-from-function", n, *c, format!("VM with the property as start rule matches={b}, function says {want}")),
                                Err(p) => viol(&mut st, "vm-panics", n, *c, format!("VM (property as start rule) panicked: {p}")),
                            }
                            if g != want {
                                viol(&mut st, "generated-differs-from-function", n, *c, format!("generated rule matches={g}, function says {want}"));
                            }
                        }
                    }
                    st
                })
            })
            .collect();
        hs.into_iter().map(|h| h.join().unwrap()).collect()
    });
    for p in parts {
        stats.merge(p);
    }
    stats.outcome("match");
    stats.outcome("no-match");
    let _: Option<Rule> = None;
    stats.sample(|| json!({"code_point": "U+00E9", "matching": FUNCS.iter().filter(|(_, f)| f('é')).map(|(n, _)| *n).collect::<Vec<_>>()}));
    stats.sample(|| json!({"code_point": "U+1F600", "matching": FUNCS.iter().filter(|(_, f)| f('😀')).map(|(n, _)| *n).collect::<Vec<_>>()}));
    let mut cov = vcore::Map::new();
    cov.insert("rule".into(), json!("complete: every scalar value x every advertised name through the function and by_name paths, with the partition / group-union / script-disjointness checks per scalar; parser paths (pest_vm and a parser derived at build time with one rule per name): quick = U+0000, U+10FFFF and both neighbours of every change point of every property (any two distinct tables differ on that set), thorough = every scalar value. One evaluation = one scalar (function paths) or one (name, code point, both parsers); non-trivial = some property matches"));
    cov.insert("exhaustive".into(), json!(true));
    verdict::conclude(verdict::Report {
        property: "C16",
        level: "exploration",
        cfg: &cfg,
        stats,
        coverage: cov,
        assumptions: vec!["the statement's category structure (29 matchable two-letter categories + SURROGATE, 8 groups) is the reference; table contents themselves are not compared with an external UCD".into()],
    })
}
