//! Generates, from the *current* list of advertised Unicode property names:
//!  - FUNCS: (name, pest::unicode::NAME) — the function access path
//!  - a derived parser with one rule `p_NAME = { NAME }` per name — the generated-code path
//!  - RULES: (name, Rule::p_NAME)
use std::fmt::Write;
fn main() {
    println!("cargo:rerun-if-changed=/repo/pest/src/unicode/mod.rs");
    println!("cargo:rerun-if-changed=build.rs");
    let names: Vec<&'static str> = pest::unicode::unicode_property_names().collect();
    let mut s = String::new();
    writeln!(s, "pub static FUNCS: &[(&str, fn(char) -> bool)] = &[").unwrap();
    for n in &names {
        writeln!(s, "    (\"{n}\", pest::unicode::{n} as fn(char) -> bool),").unwrap();
    }
    writeln!(s, "];").unwrap();
    let mut g = String::new();
    for n in &names {
        write!(g, "p_{n} = {{ {n} }} ").unwrap();
    }
    writeln!(s, "pub const GRAMMAR: &str = r#\"{g}\"#;").unwrap();
    writeln!(s, "#[derive(pest_derive::Parser)]\n#[grammar_inline = r#\"{g}\"#]\npub struct GenParser;").unwrap();
    writeln!(s, "pub static RULES: &[(&str, Rule)] = &[").unwrap();
    for n in &names {
        writeln!(s, "    (\"{n}\", Rule::p_{n}),").unwrap();
    }
    writeln!(s, "];").unwrap();
    let out = std::path::PathBuf::from(std::env::var("OUT_DIR").unwrap()).join("gen.rs");
    std::fs::write(out, s).unwrap();
}
