//! C03 — parser-state combinators are all-or-nothing and match exactly.
//! All `ParserState` call trees up to N nodes (programs are data; one driver maps them to real
//! method calls, a second one to the operational model `S_op` written from the doc comments),
//! run from several stack preludes on all inputs up to L over {a, b, é}; the complete state
//! (hook H1) is compared after every program, and the all-or-nothing clauses are additionally
//! checked directly on the real state around every `sequence`, `lookahead` and `rule` node.
use pest::verif::Snapshot;
use pest::{Atomicity, Lookahead, MatchDir, ParseResult, ParserState};
use std::collections::HashSet;
use vcore::{catch, json, verdict, Cfg, Stats, Value};

const K_REPEAT: usize = 4;

#[derive(Clone, Debug, PartialEq, Eq, Hash)]
enum Op {
    Str(&'static str),
    Insens(&'static str),
    Range(char, char),
    CharBy, // is 'a'
    Skip(usize),
    SkipUntil(Vec<&'static str>),
    Soi,
    Eoi,
    PushLit(&'static str),
    Peek,
    Pop,
    Drop,
    MatchPeek,
    MatchPop,
    PeekSlice(i32, Option<i32>, bool), // bool: bottom-to-top
    Tag(&'static str),
    Seq(Box<Op>),
    Opt(Box<Op>),
    Rep(Box<Op>),
    Look(bool, Box<Op>),
    Atomic(u8, Box<Op>),
    Rule(u8, Box<Op>),
    Push(Box<Op>),
    Restore(Box<Op>),
    AndThen(Box<Op>, Box<Op>),
    OrElse(Box<Op>, Box<Op>),
}

fn show(op: &Op) -> String {
    match op {
        Op::Str(s) => format!("match_string({s:?})"),
        Op::Insens(s) => format!("match_insensitive({s:?})"),
        Op::Range(a, b) => format!("match_range({a:?}..{b:?})"),
        Op::CharBy => "match_char_by(is 'a')".into(),
        Op::Skip(n) => format!("skip({n})"),
        Op::SkipUntil(v) => format!("skip_until({v:?})"),
        Op::Soi => "start_of_input".into(),
        Op::Eoi => "end_of_input".into(),
        Op::PushLit(s) => format!("stack_push_literal({s:?})"),
        Op::Peek => "stack_peek".into(),
        Op::Pop => "stack_pop".into(),
        Op::Drop => "stack_drop".into(),
        Op::MatchPeek => "stack_match_peek".into(),
        Op::MatchPop => "stack_match_pop".into(),
        Op::PeekSlice(a, b, d) => format!("stack_match_peek_slice({a},{b:?},{})", if *d { "BottomToTop" } else { "TopToBottom" }),
        Op::Tag(t) => format!("tag_node({t:?})"),
        Op::Seq(x) => format!("sequence({})", show(x)),
        Op::Opt(x) => format!("optional({})", show(x)),
        Op::Rep(x) => format!("repeat<={K_REPEAT}({})", show(x)),
        Op::Look(p, x) => format!("lookahead({p},{})", show(x)),
        Op::Atomic(a, x) => format!("atomic({},{})", ["NonAtomic", "Atomic", "CompoundAtomic"][*a as usize], show(x)),
        Op::Rule(r, x) => format!("rule(r{r},{})", show(x)),
        Op::Push(x) => format!("stack_push({})", show(x)),
        Op::Restore(x) => format!("restore_on_err({})", show(x)),
        Op::AndThen(x, y) => format!("{}.and_then({})", show(x), show(y)),
        Op::OrElse(x, y) => format!("{}.or_else({})", show(x), show(y)),
    }
}

fn atom(a: u8) -> Atomicity {
    [Atomicity::NonAtomic, Atomicity::Atomic, Atomicity::CompoundAtomic][a as usize]
}

// ------------------------------------------------------------------ the real driver

type St<'i> = Box<ParserState<'i, u8>>;

struct Probe {
    /// all-or-nothing clauses broken, observed directly on the real state
    broken: Vec<String>,
    steps: u64,
}

fn same_core(a: &Snapshot<u8>, b: &Snapshot<u8>) -> bool {
    a.pos == b.pos && a.queue == b.queue && a.stack == b.stack
}

fn run_real<'i>(op: &Op, s: St<'i>, pr: &mut Probe) -> ParseResult<St<'i>> {
    pr.steps += 1;
    match op {
        Op::Str(x) => s.match_string(x),
        Op::Insens(x) => s.match_insensitive(x),
        Op::Range(a, b) => s.match_range(*a..*b),
        Op::CharBy => s.match_char_by(|c| c == 'a'),
        Op::Skip(n) => s.skip(*n),
        Op::SkipUntil(v) => s.skip_until(v),
        Op::Soi => s.start_of_input(),
        Op::Eoi => s.end_of_input(),
        Op::PushLit(x) => s.stack_push_literal(*x),
        Op::Peek => s.stack_peek(),
        Op::Pop => s.stack_pop(),
        Op::Drop => s.stack_drop(),
        Op::MatchPeek => s.stack_match_peek(),
        Op::MatchPop => s.stack_match_pop(),
        Op::PeekSlice(a, b, d) => s.stack_match_peek_slice(*a, *b, if *d { MatchDir::BottomToTop } else { MatchDir::TopToBottom }),
        Op::Tag(t) => s.tag_node(t),
        Op::Seq(x) => {
            let before = s.verif_snapshot();
            let r = s.sequence(|s| run_real(x, s, pr));
            if let Err(after) = &r {
                let after = after.verif_snapshot();
                let tags_only = before.pos == after.pos && before.stack == after.stack && before.queue.len() == after.queue.len()
                    && before.queue.iter().zip(after.queue.iter()).all(|(a, b)| (a.0, a.1, a.2, a.4) == (b.0, b.1, b.2, b.4));
                if !same_core(&before, &after) && !(tags_only && has_tag_in_seq(op, false)) {
                    pr.broken.push(format!("failed sequence({}) did not restore position/tokens/stack", show(x)));
                }
            }
            r
        }
        Op::Opt(x) => s.optional(|s| run_real(x, s, pr)),
        Op::Rep(x) => {
            let mut n = 0;
            s.repeat(|s| {
                n += 1;
                if n > K_REPEAT {
                    Err(s)
                } else {
                    run_real(x, s, pr)
                }
            })
        }
        Op::Look(p, x) => {
            let before = s.verif_snapshot();
            let r = s.lookahead(*p, |s| run_real(x, s, pr));
            let after = match &r {
                Ok(a) | Err(a) => a.verif_snapshot(),
            };
            if !same_core(&before, &after) || before.lookahead != after.lookahead {
                pr.broken.push(format!("lookahead({p},{}) changed position/tokens/stack", show(x)));
            }
            r
        }
        Op::Atomic(a, x) => s.atomic(atom(*a), |s| run_real(x, s, pr)),
        Op::Rule(id, x) => {
            let before = s.verif_snapshot();
            let emits = before.lookahead == Lookahead::None && before.atomicity != Atomicity::Atomic;
            let r = s.rule(*id, |s| run_real(x, s, pr));
            match &r {
                Ok(a) => {
                    let a = a.verif_snapshot();
                    let n = before.queue.len();
                    let ok = if emits {
                        a.queue.len() >= n + 2
                            && a.queue[n].0
                            && a.queue[n].1 == before.pos
                            && a.queue[n].4 == a.queue.len() - 1
                            && matches!(a.queue.last(), Some((false, p, Some(r), _, st)) if *p == a.pos && *r == *id && *st == n)
                    } else {
                        // no pair of its own: whatever was added is exactly what the body added (checked by the model comparison)
                        a.queue.len() >= n
                    };
                    if !ok {
                        pr.broken.push(format!("rule(r{id},{}) did not emit one balanced pair around what its body consumed", show(x)));
                    }
                }
                Err(a) => {
                    // only where the rule emits: its own start token must be gone ("emits a pair iff it
                    // succeeds"). In atomic mode / look-ahead the rule owns no tokens; what a body that
                    // switched the mode back left behind is for the enclosing sequence to undo.
                    if emits && a.verif_snapshot().queue.len() > before.queue.len() {
                        pr.broken.push(format!("failed rule(r{id},..) left tokens behind"));
                    }
                }
            }
            r
        }
        Op::Push(x) => s.stack_push(|s| run_real(x, s, pr)),
        Op::Restore(x) => s.restore_on_err(|s| run_real(x, s, pr)),
        Op::AndThen(x, y) => run_real(x, s, pr).and_then(|s| run_real(y, s, pr)),
        Op::OrElse(x, y) => run_real(x, s, pr).or_else(|s| run_real(y, s, pr)),
    }
}

// ------------------------------------------------------------------ S_op, the operational model

#[derive(Clone, Debug, PartialEq, Eq, Hash)]
struct MTok {
    start: bool,
    pos: usize,
    rule: Option<u8>,
    tag: Option<String>,
    partner: usize,
}

#[derive(Clone, Debug, PartialEq, Eq, Hash)]
struct M {
    pos: usize,
    queue: Vec<MTok>,
    stack: Vec<String>,
    la: u8, // 0 none, 1 positive, 2 negative
    at: u8,
}

enum MR {
    Ok(M),
    Err(M),
    Panic,
}

fn m_match(input: &str, m: &mut M, s: &str) -> bool {
    if input.as_bytes()[m.pos..].starts_with(s.as_bytes()) {
        m.pos += s.len();
        true
    } else {
        false
    }
}

fn norm(i: i32, len: usize) -> Option<usize> {
    let l = len as i64;
    let i = i as i64;
    if i > l {
        None
    } else if i >= 0 {
        Some(i as usize)
    } else if l + i >= 0 {
        Some((l + i) as usize)
    } else {
        None
    }
}

fn run_model(op: &Op, input: &str, mut m: M, steps: &mut u64) -> MR {
    *steps += 1;
    let res = |ok: bool, m: M| if ok { MR::Ok(m) } else { MR::Err(m) };
    match op {
        Op::Str(x) => {
            let ok = m_match(input, &mut m, x);
            res(ok, m)
        }
        Op::Insens(x) => {
            let rest = &input.as_bytes()[m.pos..];
            let ok = rest.len() >= x.len() && rest[..x.len()].eq_ignore_ascii_case(x.as_bytes()) && input.is_char_boundary(m.pos + x.len());
            if ok {
                m.pos += x.len();
            }
            res(ok, m)
        }
        Op::Range(a, b) => match input[m.pos..].chars().next() {
            Some(c) if *a <= c && c <= *b => {
                m.pos += c.len_utf8();
                MR::Ok(m)
            }
            _ => MR::Err(m),
        },
        Op::CharBy => match input[m.pos..].chars().next() {
            Some('a') => {
                m.pos += 1;
                MR::Ok(m)
            }
            _ => MR::Err(m),
        },
        Op::Skip(n) => {
            let mut it = input[m.pos..].chars();
            let mut adv = 0;
            for _ in 0..*n {
                match it.next() {
                    Some(c) => adv += c.len_utf8(),
                    None => return MR::Err(m),
                }
            }
            m.pos += adv;
            MR::Ok(m)
        }
        Op::SkipUntil(v) => {
            // first offset >= pos at which any of the strings is a prefix, else the end
            let mut q = m.pos;
            while q < input.len() {
                if input.is_char_boundary(q) && v.iter().any(|s| input[q..].starts_with(s)) {
                    break;
                }
                q += 1;
            }
            m.pos = q.min(input.len());
            MR::Ok(m)
        }
        Op::Soi => res(m.pos == 0, m),
        Op::Eoi => res(m.pos == input.len(), m),
        Op::PushLit(x) => {
            m.stack.push(x.to_string());
            MR::Ok(m)
        }
        Op::Peek => {
            let Some(t) = m.stack.last().cloned() else { return MR::Panic };
            let ok = m_match(input, &mut m, &t);
            res(ok, m)
        }
        Op::Pop => {
            // "Pops the top of the stack and attempts to match the string."
            let Some(t) = m.stack.pop() else { return MR::Panic };
            let ok = m_match(input, &mut m, &t);
            res(ok, m)
        }
        Op::Drop => {
            let ok = m.stack.pop().is_some();
            res(ok, m)
        }
        Op::MatchPeek => run_model(&Op::PeekSlice(0, None, false), input, m, steps),
        Op::MatchPop => {
            // pops as it evaluates, until a mismatch; the position moves only on success
            let start = m.pos;
            while let Some(t) = m.stack.pop() {
                if !m_match(input, &mut m, &t) {
                    m.pos = start;
                    return MR::Err(m);
                }
            }
            MR::Ok(m)
        }
        Op::PeekSlice(a, b, b2t) => {
            let len = m.stack.len();
            let Some(st) = norm(*a, len) else { return MR::Err(m) };
            let en = match b {
                None => len,
                Some(b) => match norm(*b, len) {
                    Some(x) => x,
                    None => return MR::Err(m),
                },
            };
            if en <= st {
                return MR::Ok(m);
            }
            let items: Vec<String> = if *b2t { m.stack[st..en].to_vec() } else { m.stack[st..en].iter().rev().cloned().collect() };
            let start = m.pos;
            for t in &items {
                if !m_match(input, &mut m, t) {
                    m.pos = start;
                    return MR::Err(m);
                }
            }
            MR::Ok(m)
        }
        Op::Tag(t) => {
            if m.la == 0 {
                if let Some(last) = m.queue.last_mut() {
                    if !last.start {
                        last.tag = Some(t.to_string());
                    }
                }
            }
            MR::Ok(m)
        }
        Op::Seq(x) => {
            let saved = m.clone();
            match run_model(x, input, m, steps) {
                MR::Ok(n) => MR::Ok(n),
                MR::Err(n) => {
                    // restores position, tokens and stack; everything else as the closure left it
                    let mut r = n;
                    r.pos = saved.pos;
                    r.queue = saved.queue;
                    r.stack = saved.stack;
                    MR::Err(r)
                }
                MR::Panic => MR::Panic,
            }
        }
        Op::Opt(x) => match run_model(x, input, m, steps) {
            MR::Ok(n) | MR::Err(n) => MR::Ok(n),
            MR::Panic => MR::Panic,
        },
        Op::Rep(x) => {
            let mut cur = m;
            for _ in 0..K_REPEAT {
                match run_model(x, input, cur, steps) {
                    MR::Ok(n) => cur = n,
                    MR::Err(n) => return MR::Ok(n),
                    MR::Panic => return MR::Panic,
                }
            }
            MR::Ok(cur) // the counting closure refuses the (K+1)-th call, leaving the state as is
        }
        Op::Look(positive, x) => {
            let saved = m.clone();
            m.la = match (positive, saved.la) {
                (true, 0) | (true, 1) => 1,
                (true, _) => 2,
                (false, 0) | (false, 1) => 2,
                (false, _) => 1,
            };
            let (ok, n) = match run_model(x, input, m, steps) {
                MR::Ok(n) => (true, n),
                MR::Err(n) => (false, n),
                MR::Panic => return MR::Panic,
            };
            let mut r = n;
            r.pos = saved.pos;
            r.stack = saved.stack;
            r.la = saved.la;
            res(ok == *positive, r)
        }
        Op::Atomic(a, x) => {
            let saved = m.at;
            m.at = *a;
            match run_model(x, input, m, steps) {
                MR::Ok(mut n) => {
                    n.at = saved;
                    MR::Ok(n)
                }
                MR::Err(mut n) => {
                    n.at = saved;
                    MR::Err(n)
                }
                MR::Panic => MR::Panic,
            }
        }
        Op::Rule(id, x) => {
            let emits = m.la == 0 && m.at != 1;
            let index = m.queue.len();
            let start = m.pos;
            if emits {
                m.queue.push(MTok { start: true, pos: start, rule: None, tag: None, partner: 0 });
            }
            match run_model(x, input, m, steps) {
                MR::Ok(mut n) => {
                    if emits {
                        let end = n.queue.len();
                        n.queue[index].partner = end;
                        n.queue.push(MTok { start: false, pos: n.pos, rule: Some(*id), tag: None, partner: index });
                    }
                    MR::Ok(n)
                }
                MR::Err(mut n) => {
                    if emits {
                        n.queue.truncate(index);
                    }
                    MR::Err(n)
                }
                MR::Panic => MR::Panic,
            }
        }
        Op::Push(x) => {
            let start = m.pos;
            match run_model(x, input, m, steps) {
                MR::Ok(mut n) => {
                    if n.pos < start {
                        // a span that runs backwards: outside the documented use (the closure moved the position back)
                        return MR::Panic;
                    }
                    n.stack.push(input[start..n.pos].to_string());
                    MR::Ok(n)
                }
                o => o,
            }
        }
        Op::Restore(x) => {
            let saved = m.stack.clone();
            match run_model(x, input, m, steps) {
                MR::Err(mut n) => {
                    n.stack = saved;
                    MR::Err(n)
                }
                o => o,
            }
        }
        Op::AndThen(x, y) => match run_model(x, input, m, steps) {
            MR::Ok(n) => run_model(y, input, n, steps),
            o => o,
        },
        Op::OrElse(x, y) => match run_model(x, input, m, steps) {
            MR::Err(n) => run_model(y, input, n, steps),
            o => o,
        },
    }
}

fn snap_to_m(s: &Snapshot<u8>) -> M {
    M {
        pos: s.pos,
        queue: s.queue.iter().map(|(st, p, r, t, partner)| MTok { start: *st, pos: *p, rule: *r, tag: t.clone(), partner: *partner }).collect(),
        stack: s.stack.clone(),
        la: match s.lookahead {
            Lookahead::None => 0,
            Lookahead::Positive => 1,
            Lookahead::Negative => 2,
        },
        at: match s.atomicity {
            Atomicity::NonAtomic => 0,
            Atomicity::Atomic => 1,
            Atomicity::CompoundAtomic => 2,
        },
    }
}

// ------------------------------------------------------------------ enumeration

fn core_leaves() -> Vec<Op> {
    vec![
        Op::Str("a"), Op::Str("ab"), Op::Str("é"), Op::Str(""), Op::Insens("A"), Op::Range('a', 'b'), Op::CharBy, Op::Skip(1), Op::Skip(2), Op::Soi, Op::Eoi,
        Op::PushLit("a"), Op::Peek, Op::Pop, Op::Drop, Op::MatchPeek, Op::MatchPop, Op::Tag("t"), Op::SkipUntil(vec!["b"]), Op::PeekSlice(0, Some(1), true),
    ]
}

fn skip_until_leaves() -> Vec<Op> {
    let strs = ["a", "b", "ab", "", "é"];
    let mut v = vec![Op::SkipUntil(vec![])];
    for a in strs {
        v.push(Op::SkipUntil(vec![a]));
        for b in strs {
            v.push(Op::SkipUntil(vec![a, b]));
            for c in strs {
                v.push(Op::SkipUntil(vec![a, b, c]));
            }
        }
    }
    v.push(Op::SkipUntil(vec!["a", "b", "ab", "é"]));
    v
}

fn slice_leaves() -> Vec<Op> {
    let mut v = vec![];
    for a in -3..=3 {
        for b in [None, Some(-3), Some(-2), Some(-1), Some(0), Some(1), Some(2), Some(3)] {
            for d in [true, false] {
                v.push(Op::PeekSlice(a, b, d));
            }
        }
    }
    v
}

fn unary(x: &Op) -> Vec<Op> {
    let b = || Box::new(x.clone());
    vec![
        Op::Seq(b()), Op::Opt(b()), Op::Rep(b()), Op::Look(true, b()), Op::Look(false, b()), Op::Atomic(0, b()), Op::Atomic(1, b()), Op::Atomic(2, b()), Op::Rule(1, b()), Op::Rule(2, b()),
        Op::Push(b()), Op::Restore(b()),
    ]
}

fn by_size(leaves: &[Op], max: usize) -> Vec<Vec<Op>> {
    let mut by: Vec<Vec<Op>> = vec![vec![], leaves.to_vec()];
    for n in 2..=max {
        let mut v = vec![];
        for e in &by[n - 1] {
            v.extend(unary(e));
        }
        for i in 1..n - 1 {
            let j = n - 1 - i;
            if j >= 1 {
                for x in &by[i] {
                    for y in &by[j] {
                        v.push(Op::AndThen(Box::new(x.clone()), Box::new(y.clone())));
                        v.push(Op::OrElse(Box::new(x.clone()), Box::new(y.clone())));
                    }
                }
            }
        }
        by.push(v);
    }
    by
}

/// Preludes: programs run first to reach non-initial states.
fn preludes() -> Vec<Option<Op>> {
    let at = |a: Op, b: Op| Op::AndThen(Box::new(a), Box::new(b));
    vec![
        None,
        Some(Op::PushLit("a")),
        Some(at(Op::PushLit("a"), Op::PushLit("b"))),
        Some(at(Op::PushLit("é"), at(Op::PushLit(""), Op::PushLit("ab")))),
        Some(at(Op::Push(Box::new(Op::Skip(1))), Op::Rule(2, Box::new(Op::Opt(Box::new(Op::Str("b"))))))),
        // stacks whose entries are all empty (they match at any position, the end of input included)
        Some(Op::PushLit("")),
        Some(at(Op::PushLit(""), Op::Push(Box::new(Op::Opt(Box::new(Op::Str("zzz"))))))),
    ]
}

/// Does the program contain a `tag_node` somewhere below a `sequence`?
fn has_tag_in_seq(op: &Op, in_seq: bool) -> bool {
    match op {
        Op::Tag(_) => in_seq,
        Op::Seq(x) => has_tag_in_seq(x, true),
        Op::Opt(x) | Op::Rep(x) | Op::Look(_, x) | Op::Atomic(_, x) | Op::Rule(_, x) | Op::Push(x) | Op::Restore(x) => has_tag_in_seq(x, in_seq),
        Op::AndThen(x, y) | Op::OrElse(x, y) => has_tag_in_seq(x, in_seq) || has_tag_in_seq(y, in_seq),
        _ => false,
    }
}

struct Ctx<'a> {
    known: &'a vcore::verdict::Known,
    inputs: &'a [String],
    stats: Stats,
    states: HashSet<u128>,
    transitions: u64,
}

fn hash_m(m: &M) -> u128 {
    vcore::hash128(format!("{m:?}").as_bytes())
}

fn check_program(prog: &Op, label: &str, cx: &mut Ctx<'_>) {
    for input in cx.inputs {
        let mut msteps = 0u64;
        let start = M { pos: 0, queue: vec![], stack: vec![], la: 0, at: 0 };
        let model = run_model(prog, input, start, &mut msteps);
        let mut pr = Probe { broken: vec![], steps: 0 };
        let real = catch(|| {
            let s: St<'_> = ParserState::new(input.as_str());
            match run_real(prog, s, &mut pr) {
                Ok(s) => (true, s.verif_snapshot()),
                Err(s) => (false, s.verif_snapshot()),
            }
        });
        cx.stats.inc("evaluations");
        cx.transitions += msteps;
        let case = |what: String, broken: &[String]| json!({"kind": "parser-state-differs-from-contract", "program": show(prog), "slice": label, "input": input, "what": what, "all_or_nothing_clauses_broken": broken,
            "features": if cfg!(feature = "nomemchr") { "no-memchr" } else { "default(memchr)" }});
        match (&model, &real) {
            (MR::Panic, Err(p)) => {
                if !(p.contains("called on empty stack") || p.contains("span") || p.contains("slice") || p.contains("out of")) {
                    // an undocumented panic message where the model expects the documented one
                    cx.stats.violation_class("unexpected-panic", case(format!("model expects the documented empty-stack panic, real panicked with {p:?}"), &pr.broken));
                }
                cx.stats.outcome("documented-panic");
            }
            (MR::Panic, Ok(_)) => cx.stats.violation_class("missing-documented-panic", case("model expects the documented panic; real returned".into(), &pr.broken)),
            (_, Err(p)) => cx.stats.violation_class("panic", case(format!("real panicked: {p}"), &pr.broken)),
            (MR::Ok(m), Ok((ok, snap))) | (MR::Err(m), Ok((ok, snap))) => {
                let mok = matches!(model, MR::Ok(_));
                let rm = snap_to_m(snap);
                cx.states.insert(hash_m(&rm));
                if rm.pos > 0 || !rm.queue.is_empty() || !rm.stack.is_empty() {
                    cx.stats.inc("distinct_nontrivial");
                }
                cx.stats.outcome(&format!("{}:pos{}:q{}:st{}", if mok { "ok" } else { "err" }, m.pos.min(3), m.queue.len().min(4), m.stack.len().min(3)));
                let untagged = |x: &M| {
                    let mut y = x.clone();
                    for t in &mut y.queue {
                        t.tag = None;
                    }
                    y
                };
                if mok == *ok && rm != *m && untagged(&rm) == untagged(m) && has_tag_in_seq(prog, false) && cx.known.open("C03", "tag-survives-failed-sequence") {
                    // known finding: tag_node inside a sequence tags the token *preceding* the sequence;
                    // a failing sequence truncates the queue but does not undo that tag
                    cx.stats.known("tag-survives-failed-sequence", || case(format!("model {m:?}; real {rm:?}"), &pr.broken));
                } else if mok != *ok || rm != *m {
                    let class = if mok != *ok { "result-differs" } else if rm.pos != m.pos { "position-differs" } else if rm.queue != m.queue { "tokens-differ" } else if rm.stack != m.stack { "stack-differs" } else { "mode-differs" };
                    cx.stats.violation_class(class, case(format!("model {} {m:?}; real {} {rm:?}", if mok { "Ok" } else { "Err" }, if *ok { "Ok" } else { "Err" }), &pr.broken));
                } else if !pr.broken.is_empty() {
                    cx.stats.violation_class("all-or-nothing", case("clause broken inside the program".into(), &pr.broken));
                } else if !input.is_char_boundary(rm.pos) || rm.queue.iter().any(|t| !input.is_char_boundary(t.pos)) {
                    cx.stats.violation_class("not-a-boundary", case("position or token off a UTF-8 boundary".into(), &pr.broken));
                }
            }
        }
    }
}

fn with_prelude(p: &Option<Op>, prog: &Op) -> Op {
    match p {
        None => prog.clone(),
        Some(pre) => Op::AndThen(Box::new(pre.clone()), Box::new(prog.clone())),
    }
}

/// Enumerate all programs of exactly `size` nodes lazily (sizes <= 4 are stored in `by`).
fn for_each_of_size(by: &[Vec<Op>], size: usize, f: &mut dyn FnMut(&Op)) {
    if size < by.len() {
        for p in &by[size] {
            f(p);
        }
        return;
    }
    for_each_of_size(by, size - 1, &mut |e| {
        for u in unary(e) {
            f(&u);
        }
    });
    for i in 1..size - 1 {
        let j = size - 1 - i;
        if j < 1 {
            continue;
        }
        for_each_of_size(by, i, &mut |x| {
            for_each_of_size(by, j, &mut |y| {
                f(&Op::AndThen(Box::new(x.clone()), Box::new(y.clone())));
                f(&Op::OrElse(Box::new(x.clone()), Box::new(y.clone())));
            });
        });
    }
}

fn explore(cfg: &Cfg) -> (Stats, u64, u64) {
    let quick = cfg.quick();
    let inputs = vcore::strings_upto(&['a', 'b', 'é'], if quick { 3 } else { 4 });
    let short_inputs = vcore::strings_upto(&['a', 'b', 'é'], if quick { 2 } else { 3 });
    let n = if quick { 5 } else { 6 };
    let by = by_size(&core_leaves(), 4);
    let pre = preludes();
    // directed work list: (label, program)
    let mut work: Vec<(String, Op)> = vec![];
    // skip_until: every list of <= 3 strings, in contexts
    for l in skip_until_leaves() {
        let ctxs: Vec<Op> = vec![
            l.clone(),
            Op::AndThen(Box::new(Op::Skip(1)), Box::new(l.clone())),
            Op::AndThen(Box::new(l.clone()), Box::new(Op::Skip(1))),
            Op::Seq(Box::new(Op::AndThen(Box::new(l.clone()), Box::new(Op::Str("b"))))),
            Op::Look(true, Box::new(l.clone())),
            Op::Push(Box::new(l.clone())),
            Op::Rule(1, Box::new(l.clone())),
            Op::Rep(Box::new(Op::AndThen(Box::new(l.clone()), Box::new(Op::Skip(1))))),
        ];
        for c in ctxs {
            work.push(("skip_until".into(), c));
        }
    }
    // matching primitives on multi-byte patterns and inputs
    for l in [Op::Insens("é"), Op::Insens("Éa"), Op::Insens("aB"), Op::Insens(""), Op::Insens("ab"), Op::Str("éa"), Op::Str("aé"), Op::Range('é', 'é'), Op::Range('a', 'é'), Op::Skip(1), Op::Skip(2), Op::Skip(3), Op::Skip(0), Op::CharBy, Op::Range('\u{1f600}', '\u{10ffff}'), Op::Str("\u{1f600}"), Op::Range('a', 'b'), Op::Range('\0', '\u{1f}'), Op::Range('\u{100}', '\u{161}'), Op::Insens("\u{161}a")] {
        let ctxs: Vec<Op> = vec![
            l.clone(),
            Op::AndThen(Box::new(Op::Skip(1)), Box::new(l.clone())),
            Op::AndThen(Box::new(l.clone()), Box::new(l.clone())),
            Op::Seq(Box::new(Op::AndThen(Box::new(l.clone()), Box::new(Op::Str("b"))))),
            Op::Look(false, Box::new(l.clone())),
            Op::Push(Box::new(Op::Rep(Box::new(l.clone())))),
            Op::Rule(1, Box::new(Op::Opt(Box::new(l.clone())))),
            Op::Rep(Box::new(Op::OrElse(Box::new(l.clone()), Box::new(Op::Str("b"))))),
        ];
        for c in ctxs {
            work.push(("multibyte-primitives".into(), c));
        }
    }
    // mode switches: a rule emitting tokens under a nested atomicity / look-ahead switch, then a
    // failure absorbed at every level (8-10 nodes, out of reach of the size-ordered slice)
    {
        let id = |x: Op| x;
        let outers: Vec<Box<dyn Fn(Op) -> Op>> = vec![
            Box::new(id), Box::new(|x| Op::Atomic(0, Box::new(x))), Box::new(|x| Op::Atomic(1, Box::new(x))), Box::new(|x| Op::Atomic(2, Box::new(x))),
            Box::new(|x| Op::Look(true, Box::new(x))), Box::new(|x| Op::Look(false, Box::new(x))),
        ];
        let wraps: Vec<Box<dyn Fn(Op) -> Op>> = vec![
            Box::new(id), Box::new(|x| Op::Seq(Box::new(x))), Box::new(|x| Op::Restore(Box::new(x))), Box::new(|x| Op::Look(true, Box::new(x))), Box::new(|x| Op::Look(false, Box::new(x))),
            Box::new(|x| Op::Rule(2, Box::new(x))), Box::new(|x| Op::Push(Box::new(x))),
        ];
        let ctxs: Vec<Box<dyn Fn(Op) -> Op>> = vec![
            Box::new(id), Box::new(|x| Op::Opt(Box::new(x))), Box::new(|x| Op::Rep(Box::new(x))), Box::new(|x| Op::OrElse(Box::new(x), Box::new(Op::Str("a")))),
        ];
        let inners: Vec<Box<dyn Fn(Op) -> Op>> = vec![
            Box::new(id), Box::new(|x| Op::Atomic(0, Box::new(x))), Box::new(|x| Op::Atomic(1, Box::new(x))), Box::new(|x| Op::Atomic(2, Box::new(x))),
        ];
        for o in &outers {
            for w in &wraps {
                for c in &ctxs {
                    for i in &inners {
                        for leaf in [Op::Str("a"), Op::Skip(1)] {
                            for fail in [Op::Str("b"), Op::Eoi, Op::Str("a")] {
                                for tail in [Op::Rule(2, Box::new(Op::Skip(1))), Op::Eoi] {
                                    let body = Op::AndThen(Box::new(i(Op::Rule(1, Box::new(leaf.clone())))), Box::new(fail.clone()));
                                    work.push(("mode-switches".into(), o(Op::AndThen(Box::new(c(w(body))), Box::new(tail)))));
                                }
                            }
                        }
                    }
                }
            }
        }
    }
    // tag scopes: a token, then tag_node under nested checkpoints that close in every way
    // (success, plain restore, failing sequence), an absorbed failure next to it, then more parsing
    {
        let id = |x: Op| x;
        let seq = |x: Op| Op::Seq(Box::new(x));
        let wraps: Vec<Box<dyn Fn(Op) -> Op>> = vec![
            Box::new(id), Box::new(seq), Box::new(|x| Op::Restore(Box::new(x))), Box::new(|x| Op::Opt(Box::new(x))), Box::new(|x| Op::Seq(Box::new(Op::Seq(Box::new(x))))),
            Box::new(|x| Op::Restore(Box::new(Op::Seq(Box::new(x))))), Box::new(|x| Op::Push(Box::new(x))),
        ];
        let absorbed: Vec<Op> = vec![
            Op::Opt(Box::new(seq(Op::Str("zzz")))),
            Op::Opt(Box::new(Op::Restore(Box::new(Op::Str("zzz"))))),
            Op::Opt(Box::new(seq(Op::AndThen(Box::new(Op::Tag("u")), Box::new(Op::Str("zzz")))))),
            Op::Rep(Box::new(seq(Op::AndThen(Box::new(Op::Tag("u")), Box::new(Op::Str("zzz")))))),
            Op::OrElse(Box::new(seq(Op::AndThen(Box::new(Op::Tag("u")), Box::new(Op::Str("zzz"))))), Box::new(Op::Str(""))),
            Op::Str(""),
        ];
        let at = |a: Op, b: Op| Op::AndThen(Box::new(a), Box::new(b));
        for outer in &wraps {
            for inner in &wraps {
                for ab in &absorbed {
                    for tail in [Op::Str("b"), Op::Str("x"), Op::Rule(2, Box::new(Op::Skip(1)))] {
                        for first in [Op::Rule(1, Box::new(Op::Str("a"))), Op::Rule(1, Box::new(Op::Rule(2, Box::new(Op::Str("a")))))] {
                            // the same token tagged twice in one scope (the undo order matters)
                            let twice = at(at(at(inner(Op::Tag("t")), Op::Tag("v")), ab.clone()), tail.clone());
                            work.push(("tag-scopes".into(), at(first.clone(), Op::Opt(Box::new(outer(twice))))));
                            let body = at(at(inner(Op::Tag("t")), ab.clone()), tail.clone());
                            work.push(("tag-scopes".into(), at(first.clone(), Op::Opt(Box::new(outer(body.clone()))))));
                            work.push(("tag-scopes".into(), at(first, outer(body))));
                        }
                    }
                }
            }
        }
    }
    // stack changes that fail inside a look-ahead and are absorbed there, then a reader of the stack
    // still inside the same look-ahead
    {
        let at = |a: Op, b: Op| Op::AndThen(Box::new(a), Box::new(b));
        let mods = [Op::PushLit("b"), Op::Drop, Op::Pop, at(Op::Drop, Op::PushLit("b")), Op::Push(Box::new(Op::Skip(1)))];
        let readers = [Op::Peek, Op::MatchPeek, Op::Drop, Op::MatchPop, Op::PeekSlice(0, None, true), Op::PeekSlice(-1, None, false), at(Op::Drop, Op::Drop)];
        for pol in [true, false] {
            for m in &mods {
                for fail in [Op::Str("zzz"), Op::Eoi, Op::Soi] {
                    let body = at(m.clone(), fail);
                    for wrapped in [Op::Restore(Box::new(body.clone())), Op::Seq(Box::new(body.clone())), body.clone(), Op::Look(true, Box::new(body.clone()))] {
                        for absorbed in [Op::Opt(Box::new(wrapped.clone())), Op::OrElse(Box::new(wrapped.clone()), Box::new(Op::Str(""))), Op::Rep(Box::new(wrapped.clone()))] {
                            for r in &readers {
                                let inner = at(absorbed.clone(), r.clone());
                                for pl in pre.iter().take(4) {
                                    work.push(("lookahead-stack".into(), with_prelude(pl, &at(Op::Look(pol, Box::new(inner.clone())), Op::Peek))));
                                    work.push(("lookahead-stack".into(), with_prelude(pl, &Op::Opt(Box::new(at(Op::Look(pol, Box::new(inner.clone())), Op::MatchPeek))))));
                                }
                            }
                        }
                    }
                }
            }
        }
    }
    // peek slices on stacks of depth 0..3
    for l in slice_leaves() {
        for pl in &pre {
            work.push(("peek_slice".into(), with_prelude(pl, &l)));
            work.push(("peek_slice".into(), with_prelude(pl, &Op::Seq(Box::new(Op::AndThen(Box::new(l.clone()), Box::new(Op::Eoi)))))));
        }
    }
    // stack transactions: nested checkpoints cleared inside a checkpoint that is later restored
    {
        let at = |a: Op, b: Op| Op::AndThen(Box::new(a), Box::new(b));
        let seq = |a: Op| Op::Seq(Box::new(a));
        let pops: Vec<Op> = vec![at(Op::Drop, Op::Drop), at(Op::Pop, Op::Pop), at(Op::Drop, Op::Pop), at(Op::Drop, at(Op::Peek, Op::Drop)), Op::Drop, Op::MatchPop];
        let mut nested: Vec<Op> = vec![];
        for p in &pops {
            nested.push(seq(p.clone()));
            nested.push(Op::Opt(Box::new(seq(p.clone()))));
            nested.push(Op::Restore(Box::new(p.clone())));
            nested.push(Op::Rep(Box::new(seq(p.clone()))));
        }
        let mut mids: Vec<Op> = vec![];
        for y in ["a", "b"] {
            for n in &nested {
                let body = at(Op::PushLit(y), n.clone());
                mids.push(seq(body.clone()));
                mids.push(Op::Restore(Box::new(body.clone())));
                mids.push(Op::Opt(Box::new(seq(body.clone()))));
                mids.push(seq(at(Op::Push(Box::new(Op::Skip(1))), n.clone())));
                mids.push(seq(at(Op::PushLit(y), at(Op::PushLit("a"), n.clone()))));
            }
        }
        for x in ["a", "b"] {
            for m in &mids {
                for z in [Op::Str("x"), Op::Eoi, Op::Soi] {
                    for rest in [Op::Peek, Op::MatchPeek, Op::Pop, Op::PeekSlice(0, Some(1), true), Op::MatchPop] {
                        work.push(("stack-transactions".into(), at(Op::PushLit(x), Op::OrElse(Box::new(seq(at(m.clone(), z.clone()))), Box::new(rest.clone())))));
                        work.push(("stack-transactions".into(), at(Op::PushLit(x), at(Op::Look(false, Box::new(at(m.clone(), z.clone()))), rest.clone()))));
                    }
                }
            }
        }
    }
    // one character of every UTF-8 width; two four-byte ones with different lead bytes (F0, F4)
    // ... and U+0161 / U+0100, whose low bytes (0x61, 0x00) fall inside the ASCII ranges used below
    let wide_inputs = vcore::strings_upto(&['a', 'B', 'é', 'É', '\u{ff10}', '\u{1f600}', '\u{10ffff}', '\u{161}', '\u{100}'], if quick { 3 } else { 4 });
    let jobs = cfg.jobs;
    let long_inputs = vcore::strings_upto(&['a', 'b', 'é'], if quick { 5 } else { 6 });
    let parts: Vec<(Stats, HashSet<u128>, u64)> = std::thread::scope(|sc| {
        let hs: Vec<_> = (0..jobs)
            .map(|j| {
                let (work, inputs, long_inputs, short_inputs, wide_inputs, by, pre) = (&work, &inputs, &long_inputs, &short_inputs, &wide_inputs, &by, &pre);
                sc.spawn(move || {
                    let known = vcore::verdict::Known::load();
                    let mut cx = Ctx { known: &known, inputs, stats: Stats::new(), states: HashSet::new(), transitions: 0 };
                    for (label, p) in work.iter().skip(j).step_by(jobs) {
                        cx.inputs = if label == "stack-transactions" { short_inputs } else if label == "multibyte-primitives" { wide_inputs } else { long_inputs };
                        check_program(p, label, &mut cx);
                        cx.stats.inc("programs");
                    }
                    // size-ordered programs, every one after each prelude
                    let mut idx = 0usize;
                    for size in 1..=n {
                        let label = format!("core-size{size}");
                        // the largest size: fewer preludes and the shorter inputs
                        let npre = if size == n { 2 } else { pre.len() };
                        for_each_of_size(by, size, &mut |p| {
                            idx += 1;
                            if idx % jobs != j {
                                return;
                            }
                            for (pi, pl) in pre.iter().enumerate().take(npre) {
                                let _ = pi;
                                cx.inputs = if size == n { short_inputs } else { inputs };
                                let prog = with_prelude(pl, p);
                                check_program(&prog, &label, &mut cx);
                                cx.stats.inc("programs");
                                if cx.stats.samples.is_empty() && size == 4 {
                                    cx.stats.sample(|| json!({"program": show(&prog), "inputs": "all strings over {a,b,é} up to the bound"}));
                                }
                            }
                        });
                    }
                    (cx.stats, cx.states, cx.transitions)
                })
            })
            .collect();
        hs.into_iter().map(|h| h.join().unwrap()).collect()
    });
    let mut stats = Stats::new();
    let mut states: HashSet<u128> = HashSet::new();
    let mut transitions = 0;
    for (s, st, t) in parts {
        stats.merge(s);
        states.extend(st);
        transitions += t;
    }
    stats.max("program_size", n as u64);
    (stats, states.len() as u64, transitions)
}

fn main() {
    let cfg = Cfg::from_env();
    vcore::quiet_panics();
    if let Some(p) = &cfg.replay {
        let case = verdict::load_replay(p);
        println!("replay: C03 programs are re-enumerated; the case was\n{case:#}\nre-running the quick tier");
    }
    if cfg.has("--emit-stats") {
        let (stats, states, transitions) = explore(&cfg);
        println!("@STATS {}", json!({"stats": stats.to_json(), "states": states, "transitions": transitions}));
        return;
    }
    let (mut stats, mut states, mut transitions) = explore(&cfg);
    // the no-memchr build of pest is a separate binary
    let other = std::env::current_exe().unwrap().with_file_name("c03n");
    if cfg!(feature = "nomemchr") {
        // running c03n directly: nothing more to do
    } else if other.exists() {
        let out = std::process::Command::new(&other).args(["--tier", cfg.tier.name(), "--emit-stats"]).output().expect("run c03n");
        let txt = String::from_utf8_lossy(&out.stdout);
        match txt.lines().find_map(|l| l.strip_prefix("@STATS ")).and_then(|j| j.parse::<Value>().ok()) {
            Some(v) => {
                if let Some(s) = Stats::from_json(&v["stats"]) {
                    stats.add("evaluations.no-memchr", s.get("evaluations"));
                    stats.merge(s);
                }
                states += v["states"].as_u64().unwrap_or(0);
                transitions += v["transitions"].as_u64().unwrap_or(0);
            }
            None => stats.failures.push("no statistics from the no-memchr build".into()),
        }
    } else {
        stats.failures.push(format!("no-memchr binary missing: {}", other.display()));
    }
    let mut cov = vcore::Map::new();
    cov.insert("states".into(), json!(states));
    cov.insert("transitions".into(), json!(transitions));
    cov.insert("traces_validated_against_impl".into(), json!(stats.get("evaluations")));
    cov.insert("rule".into(), json!("programs = all ParserState call trees up to the stated size over 20 core leaves, 12 unary combinators (sequence, optional, repeat with a counting closure, lookahead +/-, atomic x3, rule x2, stack_push, restore_on_err) and and_then/or_else chains, each run after 5 preludes that build non-initial stacks/queues; plus every skip_until list of <= 3 strings over {a,b,ab,'',é} in 8 contexts and every stack_match_peek_slice(i,j,dir) for i,j in -3..3/None on stacks of depth 0..3; x all inputs over {a,b,é} up to the bound; both the memchr and the no-memchr build of pest. A trace = one program on one input, executed on the real ParserState and on S_op and compared on the complete state (position, token queue with partner indices and tags, stack, lookahead, atomicity) for Ok and Err alike; states = distinct final real states; transitions = model steps"));
    verdict::conclude(verdict::Report {
        property: "C03",
        level: "model_checking",
        cfg: &cfg,
        stats,
        coverage: cov,
        assumptions: vec![
            "S_op is the executable reading of the ParserState doc comments (stack_pop pops even on mismatch; optional/repeat keep the state the failing closure left; restore_on_err restores only the stack)".into(),
            "repeat is driven with a counting closure (at most 4 iterations), identically on both sides".into(),
            "attempt tracking (pos_attempts etc.) is C08's subject and not compared here".into(),
        ],
    })
}
