//! C18 — the bundled JSON grammar accepts exactly RFC 8259 JSON, with the document's tree.
//! Oracle: a recursive-descent recogniser written from the RFC's ABNF that also yields the
//! expected pair tree. Enumeration: all fragment sequences up to k, plus character-level
//! exhaustive sub-languages (numbers, strings, nesting).
use pest::iterators::Pair;
use pest::Parser;
use pest_grammars::json::{JsonParser, Rule};
use vcore::{catch, json, verdict, Cfg, Stats};

#[derive(Debug, PartialEq, Eq, Clone)]
struct Node {
    rule: &'static str,
    start: usize,
    end: usize,
    children: Vec<Node>,
}

// ------------------------------------------------------------------ RFC 8259 reference
struct P<'a> {
    s: &'a [u8],
    i: usize,
    depth: usize,
}

impl<'a> P<'a> {
    fn ws(&mut self) {
        // ws = *( %x20 / %x09 / %x0A / %x0D )
        while self.i < self.s.len() && matches!(self.s[self.i], 0x20 | 0x09 | 0x0A | 0x0D) {
            self.i += 1;
        }
    }
    fn eat(&mut self, b: u8) -> bool {
        if self.i < self.s.len() && self.s[self.i] == b {
            self.i += 1;
            true
        } else {
            false
        }
    }
    fn lit(&mut self, l: &str) -> bool {
        if self.s[self.i..].starts_with(l.as_bytes()) {
            self.i += l.len();
            true
        } else {
            false
        }
    }
    /// value = false / null / true / object / array / number / string
    fn value(&mut self) -> Option<Node> {
        let start = self.i;
        let c = *self.s.get(self.i)?;
        let inner = match c {
            b'"' => self.string()?,
            b'{' => self.object()?,
            b'[' => self.array()?,
            b't' | b'f' => {
                if self.lit("true") || self.lit("false") {
                    Node { rule: "bool", start, end: self.i, children: vec![] }
                } else {
                    return None;
                }
            }
            b'n' => {
                if self.lit("null") {
                    Node { rule: "null", start, end: self.i, children: vec![] }
                } else {
                    return None;
                }
            }
            b'-' | b'0'..=b'9' => self.number()?,
            _ => return None,
        };
        Some(Node { rule: "value", start, end: self.i, children: vec![inner] })
    }
    /// number = [ minus ] int [ frac ] [ exp ]
    fn number(&mut self) -> Option<Node> {
        let start = self.i;
        self.eat(b'-');
        // int = zero / ( digit1-9 *DIGIT )
        match self.s.get(self.i)? {
            b'0' => self.i += 1,
            b'1'..=b'9' => {
                while self.i < self.s.len() && self.s[self.i].is_ascii_digit() {
                    self.i += 1;
                }
            }
            _ => return None,
        }
        // frac = decimal-point 1*DIGIT
        if self.i + 1 < self.s.len() && self.s[self.i] == b'.' && self.s[self.i + 1].is_ascii_digit() {
            self.i += 1;
            while self.i < self.s.len() && self.s[self.i].is_ascii_digit() {
                self.i += 1;
            }
        }
        // exp = e [ minus / plus ] 1*DIGIT
        if self.i < self.s.len() && matches!(self.s[self.i], b'e' | b'E') {
            let mut j = self.i + 1;
            if j < self.s.len() && matches!(self.s[j], b'+' | b'-') {
                j += 1;
            }
            if j < self.s.len() && self.s[j].is_ascii_digit() {
                while j < self.s.len() && self.s[j].is_ascii_digit() {
                    j += 1;
                }
                self.i = j;
            }
        }
        Some(Node { rule: "number", start, end: self.i, children: vec![] })
    }
    /// string = quotation-mark *char quotation-mark
    fn string(&mut self) -> Option<Node> {
        let start = self.i;
        if !self.eat(b'"') {
            return None;
        }
        loop {
            let c = *self.s.get(self.i)?;
            match c {
                b'"' => {
                    self.i += 1;
                    return Some(Node { rule: "string", start, end: self.i, children: vec![] });
                }
                b'\\' => {
                    let e = *self.s.get(self.i + 1)?;
                    match e {
                        b'"' | b'\\' | b'/' | b'b' | b'f' | b'n' | b'r' | b't' => self.i += 2,
                        b'u' => {
                            let h = self.s.get(self.i + 2..self.i + 6)?;
                            if !h.iter().all(|x| x.is_ascii_hexdigit()) {
                                return None;
                            }
                            self.i += 6;
                        }
                        _ => return None,
                    }
                }
                0x00..=0x1F => return None, // unescaped = %x20-21 / %x23-5B / %x5D-10FFFF
                _ => self.i += 1,           // (input is valid UTF-8; continuation bytes are >= 0x80)
            }
        }
    }
    /// array = begin-array [ value *( value-separator value ) ] end-array
    fn array(&mut self) -> Option<Node> {
        let start = self.i;
        self.i += 1;
        self.depth += 1;
        let mut children = vec![];
        self.ws();
        if self.eat(b']') {
            self.depth -= 1;
            return Some(Node { rule: "array", start, end: self.i, children });
        }
        loop {
            self.ws();
            children.push(self.value()?);
            self.ws();
            if self.eat(b',') {
                continue;
            }
            if self.eat(b']') {
                self.depth -= 1;
                return Some(Node { rule: "array", start, end: self.i, children });
            }
            return None;
        }
    }
    /// object = begin-object [ member *( value-separator member ) ] end-object
    fn object(&mut self) -> Option<Node> {
        let start = self.i;
        self.i += 1;
        let mut children = vec![];
        self.ws();
        if self.eat(b'}') {
            return Some(Node { rule: "object", start, end: self.i, children });
        }
        loop {
            self.ws();
            let ms = self.i;
            if self.s.get(self.i) != Some(&b'"') {
                return None;
            }
            let k = self.string()?;
            self.ws();
            if !self.eat(b':') {
                return None;
            }
            self.ws();
            let v = self.value()?;
            children.push(Node { rule: "pair", start: ms, end: self.i, children: vec![k, v] });
            self.ws();
            if self.eat(b',') {
                continue;
            }
            if self.eat(b'}') {
                return Some(Node { rule: "object", start, end: self.i, children });
            }
            return None;
        }
    }
}

/// JSON-text = ws value ws ; the expected tree is json(value(..), EOI).
fn reference(s: &str) -> Option<Node> {
    let mut p = P { s: s.as_bytes(), i: 0, depth: 0 };
    p.ws();
    let v = p.value()?;
    p.ws();
    if p.i != s.len() {
        return None;
    }
    Some(Node { rule: "json", start: 0, end: s.len(), children: vec![v, Node { rule: "EOI", start: s.len(), end: s.len(), children: vec![] }] })
}

// ------------------------------------------------------------------ the real parser
fn rule_name(r: Rule) -> &'static str {
    match r {
        Rule::json => "json",
        Rule::value => "value",
        Rule::object => "object",
        Rule::pair => "pair",
        Rule::array => "array",
        Rule::string => "string",
        Rule::number => "number",
        Rule::bool => "bool",
        Rule::null => "null",
        Rule::EOI => "EOI",
        _ => "<other>",
    }
}
fn to_node(p: Pair<'_, Rule>) -> Node {
    let sp = p.as_span();
    Node { rule: rule_name(p.as_rule()), start: sp.start(), end: sp.end(), children: p.into_inner().map(to_node).collect() }
}
fn real(s: &str) -> Result<Option<Node>, String> {
    catch(|| match JsonParser::parse(Rule::json, s) {
        Ok(mut pairs) => {
            let first = pairs.next().map(to_node);
            if pairs.next().is_some() {
                Some(Node { rule: "<more than one top-level pair>", start: 0, end: 0, children: vec![] })
            } else {
                first
            }
        }
        Err(_) => None,
    })
}

fn show(n: &Node) -> String {
    if n.children.is_empty() {
        format!("{}[{}..{}]", n.rule, n.start, n.end)
    } else {
        format!("{}[{}..{}]({})", n.rule, n.start, n.end, n.children.iter().map(show).collect::<Vec<_>>().join(", "))
    }
}

fn check(s: &str, st: &mut Stats) {
    st.inc("evaluations");
    let want = reference(s);
    let got = real(s);
    match (&want, &got) {
        (Some(w), Ok(Some(g))) if w == g => {
            st.inc("distinct_nontrivial");
            st.inc("accepted");
            st.outcome(&format!("accept:{}", w.children[0].children[0].rule));
            if st.get("accepted") % 200_000 == 1 {
                st.sample(|| json!({"text": s, "tree": show(w)}));
            }
        }
        (None, Ok(None)) => {
            if !s.is_empty() && (s.contains('"') || s.contains('[') || s.contains('{') || s.bytes().any(|b| b.is_ascii_digit())) {
                st.inc("distinct_nontrivial");
            }
            st.outcome("reject");
        }
        (Some(w), Ok(Some(g))) => st.violation_class("tree-differs", json!({"kind": "tree-differs", "text": s, "expected": show(w), "actual": show(g)})),
        (Some(w), Ok(None)) => st.violation_class("valid-json-rejected", json!({"kind": "valid-json-rejected", "text": s, "expected": show(w)})),
        (None, Ok(Some(g))) => st.violation_class("invalid-json-accepted", json!({"kind": "invalid-json-accepted", "text": s, "actual": show(g)})),
        (_, Err(p)) => st.violation_class("parser-panics", json!({"kind": "parser-panics", "text": s, "panic": p})),
    }
}

const FRAGMENTS: &[&str] = &[
    "{", "}", "[", "]", ",", ":", "\"", "\\", "\\\"", "\\\\", "\\/", "\\b", "A", "\\u00", "\\x", "0", "1", "9", "-", "+", ".", "e", "E", "true", "false", "null", "tru", "a", "é", "\u{1f}",
    "\u{7f}", " ", "\n", "\t", "\r", "\u{a0}", "\u{c}", "\"a\"",
    // look-alikes of the ASCII classes the grammar uses (fullwidth hex digit and letter, Arabic-Indic digit, C1 control)
    "\u{ff10}", "\u{ff21}", "\u{663}", "\u{85}", "\\u000",
    // four-byte characters with lead bytes F0 and F4
    "\u{1f600}", "\u{10ffff}",
    // byte order mark (RFC 8259 section 8.1: not part of a JSON text)
    "\u{feff}",
    // escape forms other languages have: \U + 8 hex digits, \u{...}, \x41, octal, a valid \u0041
    "\\U00000041", "\\U0001F600", "\\u{41}", "\\x41", "\\101", "\\u0041", "\\ud83d\\ude00",
];
const STRUCT_FRAGMENTS: &[&str] = &["{", "}", "[", "]", ",", ":", "\"\"", "\"a\"", "0", "-1", "1.5e1", "true", "null", " ", "\n", "1"];

/// Enumerate all sequences of exactly `k` fragments whose first fragment index is `first`.
fn for_sequences(frags: &[&str], k: usize, first: usize, st: &mut Stats) {
    let mut idx = vec![0usize; k];
    idx[0] = first;
    let mut buf = String::new();
    loop {
        buf.clear();
        for i in &idx {
            buf.push_str(frags[*i]);
        }
        check(&buf, st);
        // increment positions 1..k
        let mut p = k;
        loop {
            if p == 1 {
                return;
            }
            p -= 1;
            idx[p] += 1;
            if idx[p] < frags.len() {
                break;
            }
            idx[p] = 0;
        }
    }
}

fn main() {
    let cfg = Cfg::from_env();
    vcore::quiet_panics();
    if let Some(p) = &cfg.replay {
        let case = verdict::load_replay(p);
        let s = case["text"].as_str().unwrap();
        let mut st = Stats::new();
        check(s, &mut st);
        println!("text {s:?}\nexpected {:?}\nactual   {:?}", reference(s).as_ref().map(show), real(s).map(|x| x.as_ref().map(show)));
        if st.get("violations") > 0 {
            println!("VIOLATION property=C18 replay={p}");
            std::process::exit(1)
        }
        println!("replay: property holds on this text");
        std::process::exit(0)
    }
    let quick = cfg.quick();
    let (k, ks, ln, lstr, lnest) = if quick { (4, 6, 8, 6, 7) } else { (5, 7, 10, 8, 9) };
    // work items: (kind, param a, param b)
    #[derive(Clone)]
    enum Work {
        Frag(usize, usize),
        Struct(usize, usize),
        Chars(&'static [char], usize, usize),
    }
    const NUM: &[char] = &['0', '1', '-', '+', '.', 'e', 'E', '\u{663}'];
    const STR: &[char] = &['"', '\\', 'u', '0', 'A', 'n', 'x', '\u{1f}', 'é', '\u{ff10}', '\u{7f}', '\u{1f600}'];
    const NEST: &[char] = &['[', ']', '{', '}', ':', ',', '0', '"'];
    let mut work: Vec<Work> = vec![];
    for kk in 1..=k {
        for f in 0..FRAGMENTS.len() {
            work.push(Work::Frag(kk, f));
        }
    }
    for f in 0..STRUCT_FRAGMENTS.len() {
        for kk in (k + 1)..=ks {
            work.push(Work::Struct(kk, f));
        }
    }
    for (alpha, l) in [(NUM, ln), (STR, lstr), (NEST, lnest)] {
        for len in 1..=l {
            for f in 0..alpha.len() {
                work.push(Work::Chars(alpha, len, f));
            }
        }
    }
    let jobs = cfg.jobs;
    let next = std::sync::atomic::AtomicUsize::new(0);
    let mut stats = Stats::new();
    let parts: Vec<Stats> = std::thread::scope(|sc| {
        let hs: Vec<_> = (0..jobs)
            .map(|_| {
                let (work, next) = (&work, &next);
                sc.spawn(move || {
                    let mut st = Stats::new();
                    loop {
                        let i = next.fetch_add(1, std::sync::atomic::Ordering::Relaxed);
                        let Some(w) = work.get(i) else { break };
                        match w {
                            Work::Frag(k, f) => for_sequences(FRAGMENTS, *k, *f, &mut st),
                            Work::Struct(k, f) => for_sequences(STRUCT_FRAGMENTS, *k, *f, &mut st),
                            Work::Chars(alpha, len, f) => {
                                let frags: Vec<String> = alpha.iter().map(|c| c.to_string()).collect();
                                let fr: Vec<&str> = frags.iter().map(|s| s.as_str()).collect();
                                // strings are wrapped so that the sub-language is reachable
                                for_sequences(&fr, *len, *f, &mut st);
                            }
                        }
                    }
                    st
                })
            })
            .collect();
        hs.into_iter().map(|h| h.join().unwrap()).collect()
    });
    check("", &mut stats);
    for p in parts {
        stats.merge(p);
    }
    stats.max("fragment_sequence_length", k as u64);
    stats.max("structural_fragment_sequence_length", ks as u64);
    stats.max("number_alphabet_length", ln as u64);
    stats.max("string_alphabet_length", lstr as u64);
    stats.max("nesting_alphabet_length", lnest as u64);
    let mut cov = vcore::Map::new();
    cov.insert("rule".into(), json!("all sequences of 1..=k fragments over a 53-fragment JSON alphabet (structure, quotes, every escape form, bad escapes, digits, signs, exponent letters, literals and a truncated literal, ASCII/non-ASCII letters, U+001F, U+007F, every RFC whitespace, U+00A0, U+000C, fullwidth hex digit/letter, Arabic-Indic digit, U+0085, U+1F600, U+10FFFF, U+FEFF); all sequences of k+1..=ks fragments over 16 structural fragments; character-level exhaustive strings over {0,1,-,+,.,e,E}, over {\",\\,u,0,A,n,x,U+001F,é,U+FF10,U+007F,U+1F600} and over {[,],{,},:,',',0,\"} up to the stated lengths. JsonParser::parse(Rule::json, s) must be Ok exactly when an RFC 8259 recursive-descent recogniser accepts, and then return exactly the recogniser's tree json(value(..), EOI) with object/pair/array/string/number/bool/null nodes and byte spans. Non-trivial: accepted texts, and rejected texts containing a quote, bracket, brace or digit"));
    cov.insert("exhaustive".into(), json!(true));
    verdict::conclude(verdict::Report {
        property: "C18",
        level: "exploration",
        cfg: &cfg,
        stats,
        coverage: cov,
        assumptions: vec!["the harness' recogniser is the reading of RFC 8259's ABNF".into(), "nesting depth bounded by the enumeration (native recursion depth is C09/C12 territory)".into()],
    })
}
