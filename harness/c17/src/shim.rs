//! What the rebound debugger source imports instead of `std::sync` / `std::thread`: newtypes over
//! loom's primitives (so that loom schedules every synchronisation operation) plus a bounded
//! `sync_channel` built from a loom `Mutex` and two `Condvar`s (loom ships only an unbounded one).
#![allow(dead_code)]
use std::panic::{RefUnwindSafe, UnwindSafe};

/// Which blocking operation each loom thread is in (diagnosis of deadlocks). Plain std data:
/// loom does not see it and therefore cannot interleave on it.
pub mod trace {
    use std::sync::Mutex;
    pub static BLOCKED: Mutex<Vec<(String, &'static str)>> = Mutex::new(Vec::new());
    pub static ENQUEUED: std::sync::atomic::AtomicUsize = std::sync::atomic::AtomicUsize::new(0);
    pub static RECEIVED: std::sync::atomic::AtomicUsize = std::sync::atomic::AtomicUsize::new(0);
    loom::thread_local! {
        pub static ROLE: std::cell::RefCell<String> = std::cell::RefCell::new("controller".to_string());
    }
    pub fn enter(op: &'static str) {
        let role = ROLE.with(|r| r.borrow().clone());
        let mut b = BLOCKED.lock().unwrap();
        b.retain(|x| x.0 != role);
        b.push((role, op));
    }
    pub fn leave() {
        let role = ROLE.with(|r| r.borrow().clone());
        BLOCKED.lock().unwrap().retain(|x| x.0 != role);
    }
    pub fn reset() {
        BLOCKED.lock().unwrap().clear();
        ENQUEUED.store(0, std::sync::atomic::Ordering::SeqCst);
        RECEIVED.store(0, std::sync::atomic::Ordering::SeqCst);
        ROLE.with(|r| *r.borrow_mut() = "controller".to_string());
    }
    pub fn snapshot() -> String {
        let b = BLOCKED.lock().unwrap();
        let mut v: Vec<String> = b.iter().map(|(r, o)| format!("{r}:{o}")).collect();
        v.sort();
        v.join(",")
    }
}

pub mod sync {
    use super::*;
    pub use std::sync::{TryLockError, TryLockResult};
    pub mod atomic {
        pub use loom::sync::atomic::Ordering;
        pub struct AtomicBool(loom::sync::atomic::AtomicBool);
        impl AtomicBool {
            pub fn new(v: bool) -> Self {
                AtomicBool(loom::sync::atomic::AtomicBool::new(v))
            }
            pub fn load(&self, o: Ordering) -> bool {
                self.0.load(o)
            }
            pub fn store(&self, v: bool, o: Ordering) {
                self.0.store(v, o)
            }
            pub fn swap(&self, v: bool, o: Ordering) -> bool {
                self.0.swap(v, o)
            }
            pub fn compare_exchange(&self, cur: bool, new: bool, s: Ordering, f: Ordering) -> Result<bool, bool> {
                self.0.compare_exchange(cur, new, s, f)
            }
            pub fn fetch_or(&self, v: bool, o: Ordering) -> bool {
                self.0.fetch_or(v, o)
            }
            pub fn fetch_and(&self, v: bool, o: Ordering) -> bool {
                self.0.fetch_and(v, o)
            }
        }
        impl Default for AtomicBool {
            fn default() -> Self {
                AtomicBool::new(false)
            }
        }
        pub struct AtomicUsize(loom::sync::atomic::AtomicUsize);
        impl AtomicUsize {
            pub fn new(v: usize) -> Self {
                AtomicUsize(loom::sync::atomic::AtomicUsize::new(v))
            }
            pub fn load(&self, o: Ordering) -> usize {
                self.0.load(o)
            }
            pub fn store(&self, v: usize, o: Ordering) {
                self.0.store(v, o)
            }
            pub fn fetch_add(&self, v: usize, o: Ordering) -> usize {
                self.0.fetch_add(v, o)
            }
            pub fn fetch_sub(&self, v: usize, o: Ordering) -> usize {
                self.0.fetch_sub(v, o)
            }
        }
        impl Default for AtomicUsize {
            fn default() -> Self {
                AtomicUsize::new(0)
            }
        }
        impl std::panic::UnwindSafe for AtomicUsize {}
        impl std::panic::RefUnwindSafe for AtomicUsize {}
        impl std::panic::UnwindSafe for AtomicBool {}
        impl std::panic::RefUnwindSafe for AtomicBool {}
    }

    pub struct Arc<T>(loom::sync::Arc<T>);
    impl<T> Arc<T> {
        pub fn new(v: T) -> Self {
            Arc(loom::sync::Arc::new(v))
        }
        #[allow(clippy::should_implement_trait)]
        pub fn clone(this: &Self) -> Self {
            Arc(loom::sync::Arc::clone(&this.0))
        }
    }
    impl<T> Arc<T> {
        pub fn ptr_eq(a: &Self, b: &Self) -> bool {
            loom::sync::Arc::ptr_eq(&a.0, &b.0)
        }
        pub fn strong_count(a: &Self) -> usize {
            loom::sync::Arc::strong_count(&a.0)
        }
    }
    impl<T: Default> Default for Arc<T> {
        fn default() -> Self {
            Arc::new(T::default())
        }
    }
    impl<T> From<T> for Arc<T> {
        fn from(v: T) -> Self {
            Arc::new(v)
        }
    }
    impl<T> Clone for Arc<T> {
        fn clone(&self) -> Self {
            Arc(loom::sync::Arc::clone(&self.0))
        }
    }
    impl<T> std::ops::Deref for Arc<T> {
        type Target = T;
        fn deref(&self) -> &T {
            &self.0
        }
    }
    impl<T> UnwindSafe for Arc<T> {}
    impl<T> RefUnwindSafe for Arc<T> {}

    pub struct Mutex<T>(loom::sync::Mutex<T>, loom::sync::atomic::AtomicUsize);
    impl<T> Mutex<T> {
        pub fn new(v: T) -> Self {
            Mutex(loom::sync::Mutex::new(v), loom::sync::atomic::AtomicUsize::new(0))
        }
        pub fn lock(&self) -> std::sync::LockResult<loom::sync::MutexGuard<'_, T>> {
            super::trace::enter("lock");
            let r = self.0.lock();
            super::trace::leave();
            // loom's try_lock is an "opaque" operation: its partial-order reduction does not treat it
            // as conflicting with lock(), so "try_lock while another thread holds the lock" would never
            // be scheduled. The holder writes, and try_lock reads, this cell: a conflict loom does see.
            self.1.fetch_add(1, loom::sync::atomic::Ordering::SeqCst);
            r
        }
        pub fn try_lock(&self) -> std::sync::TryLockResult<loom::sync::MutexGuard<'_, T>> {
            self.1.load(loom::sync::atomic::Ordering::SeqCst);
            self.0.try_lock()
        }
    }
    impl<T: Default> Default for Mutex<T> {
        fn default() -> Self {
            Mutex::new(T::default())
        }
    }
    impl<T> From<T> for Mutex<T> {
        fn from(v: T) -> Self {
            Mutex::new(v)
        }
    }
    impl<T> UnwindSafe for Mutex<T> {}
    impl<T> RefUnwindSafe for Mutex<T> {}

    pub mod mpsc {
        use super::super::trace;
        use std::collections::VecDeque;
        use std::panic::{RefUnwindSafe, UnwindSafe};

        struct State<T> {
            queue: VecDeque<T>,
            senders: usize,
            receiver_alive: bool,
        }
        struct Inner<T> {
            cap: usize,
            state: loom::sync::Mutex<State<T>>,
            not_full: loom::sync::Condvar,
            not_empty: loom::sync::Condvar,
        }
        pub struct SyncSender<T>(loom::sync::Arc<Inner<T>>);
        pub struct Receiver<T>(loom::sync::Arc<Inner<T>>);
        #[derive(Debug)]
        pub struct SendError<T>(pub T);
        #[derive(Debug, PartialEq, Eq)]
        pub struct RecvError;
        #[derive(Debug, PartialEq, Eq)]
        pub enum TryRecvError {
            Empty,
            Disconnected,
        }

        pub fn sync_channel<T>(cap: usize) -> (SyncSender<T>, Receiver<T>) {
            assert!(cap >= 1, "rendezvous channels are not modelled");
            let inner = loom::sync::Arc::new(Inner {
                cap,
                state: loom::sync::Mutex::new(State { queue: VecDeque::new(), senders: 1, receiver_alive: true }),
                not_full: loom::sync::Condvar::new(),
                not_empty: loom::sync::Condvar::new(),
            });
            (SyncSender(inner.clone()), Receiver(inner))
        }

        impl<T> SyncSender<T> {
            pub fn send(&self, t: T) -> Result<(), SendError<T>> {
                let mut st = self.0.state.lock().unwrap();
                loop {
                    if !st.receiver_alive {
                        return Err(SendError(t));
                    }
                    if st.queue.len() < self.0.cap {
                        st.queue.push_back(t);
                        trace::ENQUEUED.fetch_add(1, std::sync::atomic::Ordering::SeqCst);
                        self.0.not_empty.notify_one();
                        return Ok(());
                    }
                    trace::enter("send");
                    st = self.0.not_full.wait(st).unwrap();
                    trace::leave();
                }
            }
        }
        #[derive(Debug)]
        pub enum TrySendError<T> {
            Full(T),
            Disconnected(T),
        }
        impl<T> SyncSender<T> {
            pub fn try_send(&self, t: T) -> Result<(), TrySendError<T>> {
                let mut st = self.0.state.lock().unwrap();
                if !st.receiver_alive {
                    return Err(TrySendError::Disconnected(t));
                }
                if st.queue.len() < self.0.cap {
                    st.queue.push_back(t);
                    trace::ENQUEUED.fetch_add(1, std::sync::atomic::Ordering::SeqCst);
                    self.0.not_empty.notify_one();
                    return Ok(());
                }
                Err(TrySendError::Full(t))
            }
        }
        impl<T> Clone for SyncSender<T> {
            fn clone(&self) -> Self {
                self.0.state.lock().unwrap().senders += 1;
                SyncSender(self.0.clone())
            }
        }
        impl<T> Drop for SyncSender<T> {
            fn drop(&mut self) {
                let mut st = self.0.state.lock().unwrap();
                st.senders -= 1;
                if st.senders == 0 {
                    self.0.not_empty.notify_all();
                }
            }
        }
        impl<T> UnwindSafe for SyncSender<T> {}
        impl<T> RefUnwindSafe for SyncSender<T> {}

        impl<T> Receiver<T> {
            pub fn recv(&self) -> Result<T, RecvError> {
                let mut st = self.0.state.lock().unwrap();
                loop {
                    if let Some(t) = st.queue.pop_front() {
                        trace::RECEIVED.fetch_add(1, std::sync::atomic::Ordering::SeqCst);
                        self.0.not_full.notify_one();
                        return Ok(t);
                    }
                    if st.senders == 0 {
                        return Err(RecvError);
                    }
                    trace::enter("recv");
                    st = self.0.not_empty.wait(st).unwrap();
                    trace::leave();
                }
            }
            pub fn try_recv(&self) -> Result<T, TryRecvError> {
                let mut st = self.0.state.lock().unwrap();
                match st.queue.pop_front() {
                    Some(t) => {
                        trace::RECEIVED.fetch_add(1, std::sync::atomic::Ordering::SeqCst);
                        self.0.not_full.notify_one();
                        Ok(t)
                    }
                    None if st.senders == 0 => Err(TryRecvError::Disconnected),
                    None => Err(TryRecvError::Empty),
                }
            }
        }
        impl<T> Drop for Receiver<T> {
            fn drop(&mut self) {
                let mut st = self.0.state.lock().unwrap();
                st.receiver_alive = false;
                self.0.not_full.notify_all();
            }
        }
    }
}

pub mod thread {
    use super::trace;
    pub struct JoinHandle<T>(loom::thread::JoinHandle<T>);
    pub struct Thread(loom::thread::Thread);
    impl Thread {
        pub fn unpark(&self) {
            self.0.unpark()
        }
    }
    impl<T> JoinHandle<T> {
        pub fn thread(&self) -> Thread {
            Thread(self.0.thread().clone())
        }
        pub fn join(self) -> std::thread::Result<T> {
            trace::enter("join");
            let r = self.0.join();
            trace::leave();
            r
        }
    }
    static SPAWNED: std::sync::atomic::AtomicUsize = std::sync::atomic::AtomicUsize::new(0);
    pub fn reset_names() {
        SPAWNED.store(0, std::sync::atomic::Ordering::SeqCst);
    }
    pub fn spawn<F, T>(f: F) -> JoinHandle<T>
    where
        F: FnOnce() -> T + Send + 'static,
        T: Send + 'static,
    {
        let n = SPAWNED.fetch_add(1, std::sync::atomic::Ordering::SeqCst);
        let h = loom::thread::Builder::new()
            .stack_size(1 << 20)
            .spawn(move || {
                trace::ROLE.with(|r| *r.borrow_mut() = format!("parser{n}"));
                let r = f();
                trace::leave();
                r
            })
            .expect("spawn");
        JoinHandle(h)
    }
    pub fn yield_now() {
        loom::thread::yield_now()
    }
    pub fn current() -> Thread {
        Thread(loom::thread::current())
    }
    pub fn sleep(_d: std::time::Duration) {
        // time does not exist under the model checker: a sleep is a scheduling point
        loom::thread::yield_now()
    }
    /// `std::thread::park` "may also return spuriously, without a matching unpark": the harness can
    /// make the n-th park call of an execution (counted over all threads) return at once.
    pub static SPURIOUS_AT: std::sync::atomic::AtomicIsize = std::sync::atomic::AtomicIsize::new(-1);
    pub static PARK_CALLS: std::sync::atomic::AtomicIsize = std::sync::atomic::AtomicIsize::new(0);
    pub fn park() {
        let n = PARK_CALLS.fetch_add(1, std::sync::atomic::Ordering::SeqCst);
        if n == SPURIOUS_AT.load(std::sync::atomic::Ordering::SeqCst) {
            trace::enter("park(spurious wake-up)");
            loom::thread::yield_now();
            trace::leave();
            return;
        }
        trace::enter("park");
        loom::thread::park();
        trace::leave();
    }
}
