//! The command-line front end (debugger/src/main.rs) is the same debugger: a session given as
//! command-line options, as typed commands, or as a mixture must print exactly the expected
//! event stream. Sequential, exhaustive over a small menu: scenarios x session forms x option orders.
use std::io::Write;
use std::process::{Command, Stdio};
use vcore::{json, Stats};

#[derive(Debug, PartialEq, Eq, Clone)]
pub enum Shown {
    Hit(String, usize, usize),
    Eof,
    Error(String),
}

fn line_col(input: &str, pos: usize) -> (usize, usize) {
    let before = &input[..pos];
    let line = before.matches('\n').count() + 1;
    let col = before.rsplit('\n').next().unwrap_or("").chars().count() + 1;
    (line, col)
}

/// Events as the CLI prints them, in order of appearance.
pub fn parse_stdout(out: &str) -> Vec<Shown> {
    let mut v = vec![];
    let mut last_lc = (0usize, 0usize);
    for l in out.lines() {
        let t = l.trim_start();
        if let Some(rest) = t.strip_prefix("--> ") {
            let mut it = rest.trim().split(':');
            last_lc = (it.next().and_then(|x| x.parse().ok()).unwrap_or(0), it.next().and_then(|x| x.parse().ok()).unwrap_or(0));
        } else if let Some(rest) = t.strip_prefix("= parsing ") {
            v.push(Shown::Hit(rest.trim().to_string(), last_lc.0, last_lc.1));
        } else if let Some(rest) = t.strip_prefix("= ") {
            v.push(Shown::Error(rest.trim().to_string()));
        } else if t.starts_with("end-of-input reached") {
            v.push(Shown::Eof);
        } else if t.starts_with("Error:") || t.starts_with("parsing timed out") {
            v.push(Shown::Error(t.to_string()));
        }
    }
    v
}

pub struct Session {
    pub form: &'static str,
    pub args: Vec<String>,
    pub stdin: String,
    /// the session starts with a run whose parsing thread panics (undefined start rule) and a `run`
    /// that only reports it; the session proper follows
    pub after_panic: bool,
}

pub fn sessions(g: &str, i: &str, rule: &str, bps: &[&str], conts: usize, direct: Option<&str>) -> Vec<Session> {
    let c = "c\n".repeat(conts);
    let opt = |k: &str, v: &str| vec![k.to_string(), v.to_string()];
    let mut bopts: Vec<String> = vec![];
    for b in bps {
        bopts.extend(opt("-b", b));
    }
    let typed_b: String = bps.iter().map(|b| format!("b {b}\n")).collect();
    let nu = vec!["--no-update".to_string()];
    let cat = |parts: &[&Vec<String>]| parts.iter().flat_map(|p| p.iter().cloned()).collect::<Vec<String>>();
    let mut v = vec![];
    // `id <text>`: the input given directly on the command line (single-line inputs)
    if let Some(text) = direct {
        v.push(Session { form: "typed commands, input by id", args: nu.clone(), stdin: format!("g {g}\n{typed_b}id {text}\nr {rule}\n{c}"), after_panic: false });
        v.push(Session { form: "option -g, typed id / b / r", args: cat(&[&nu, &opt("-g", g)]), stdin: format!("id {text}\n{typed_b}r {rule}\n{c}"), after_panic: false });
    }
    v.extend(vec![
        Session { form: "options: -g -i -b -r", args: cat(&[&nu, &opt("-g", g), &opt("-i", i), &bopts, &opt("-r", rule)]), stdin: c.clone(), after_panic: false },
        Session { form: "options: -r -b -i -g", args: cat(&[&opt("-r", rule), &bopts, &opt("-i", i), &opt("-g", g), &nu]), stdin: c.clone(), after_panic: false },
        Session { form: "options: -b -r -g -i (long names)", args: cat(&[&bps.iter().flat_map(|b| opt("--breakpoint", b)).collect(), &opt("--rule", rule), &opt("--grammar", g), &opt("--input", i), &nu]), stdin: c.clone(), after_panic: false },
        Session { form: "typed commands", args: nu.clone(), stdin: format!("g {g}\ni {i}\n{typed_b}r {rule}\n{c}"), after_panic: false },
        Session { form: "typed commands (long verbs)", args: nu.clone(), stdin: format!("grammar {g}\ninput {i}\n{}run {rule}\n{}", bps.iter().map(|b| format!("breakpoint {b}\n")).collect::<String>(), "continue\n".repeat(conts)), after_panic: false },
        Session { form: "options -g -i, typed b / r", args: cat(&[&nu, &opt("-g", g), &opt("-i", i)]), stdin: format!("{typed_b}r {rule}\n{c}"), after_panic: false },
        Session { form: "options -g -i -b, typed r", args: cat(&[&nu, &opt("-g", g), &opt("-i", i), &bopts]), stdin: format!("r {rule}\n{c}"), after_panic: false },
    ]);
    v.push(Session { form: "typed commands after a run whose thread panicked", args: nu.clone(), stdin: format!("g {g}\ni {i}\n{typed_b}r zzz-not-a-rule\nr {rule}\nr {rule}\n{c}"), after_panic: true });
    v
}

pub fn run(bin: &std::ffi::OsStr, s: &Session) -> Result<String, String> {
    let mut ch = Command::new(bin).args(&s.args).stdin(Stdio::piped()).stdout(Stdio::piped()).stderr(Stdio::piped()).spawn().map_err(|e| format!("spawn: {e}"))?;
    ch.stdin.take().unwrap().write_all(s.stdin.as_bytes()).map_err(|e| format!("stdin: {e}"))?;
    let out = ch.wait_with_output().map_err(|e| format!("wait: {e}"))?;
    Ok(format!("{}{}", String::from_utf8_lossy(&out.stdout), String::from_utf8_lossy(&out.stderr).lines().filter(|l| l.starts_with("Error") || l.starts_with("parsing timed out")).collect::<Vec<_>>().join("\n")))
}

/// `expected`: (rule, pos) hits then the end (None = Eof, Some(text) = error text).
pub fn check(bin: &std::ffi::OsStr, dir: &std::path::Path, name: &str, grammar: &str, input: &str, rule: &str, bps: &[&str], hits: &[(String, usize)], end_error: Option<&str>, stats: &mut Stats) {
    let g = dir.join(format!("{name}.pest"));
    let i = dir.join(format!("{name}.txt"));
    std::fs::write(&g, grammar).unwrap();
    std::fs::write(&i, input).unwrap();
    let mut want: Vec<Shown> = hits.iter().map(|(r, p)| { let (l, c) = line_col(input, *p); Shown::Hit(r.clone(), l, c) }).collect();
    match end_error {
        None => want.push(Shown::Eof),
        Some(text) => want.extend(parse_stdout(text).into_iter().filter(|x| matches!(x, Shown::Error(_)))),
    }
    // `id` takes the rest of the line: usable when the input is one line without trailing blanks
    let direct = if !input.contains('\n') && !input.contains('\r') && input.trim_end() == input && !input.is_empty() { Some(input) } else { None };
    for s in sessions(g.to_str().unwrap(), i.to_str().unwrap(), rule, bps, hits.len(), direct) {
        stats.inc("evaluations");
        stats.inc("distinct_nontrivial");
        stats.inc("cli_sessions");
        match run(bin, &s) {
            Err(e) => stats.failures.push(format!("cli session could not be run: {e}")),
            Ok(out) => {
                let mut got = parse_stdout(&out);
                if s.after_panic {
                    // exactly one report of each kind belongs to the prelude: the disconnected first run
                    // (on stderr, appended after stdout here) and the `run` that reports the panic
                    for prefix in ["parsing timed out", "Error: Previous parsing execution panic"] {
                        if let Some(k) = got.iter().position(|x| matches!(x, Shown::Error(t) if t.starts_with(prefix))) {
                            got.remove(k);
                        } else {
                            got.push(Shown::Error(format!("<missing: {prefix}>")));
                        }
                    }
                }
                if got != want {
                    stats.violation_class("cli-session", json!({"kind": "cli-session-prints-a-different-event-stream", "scenario": name, "grammar": grammar, "input": input, "rule": rule, "breakpoints": bps, "session_form": s.form, "options": s.args, "typed": s.stdin,
                        "printed_events": format!("{got:?}"), "expected_events": format!("{want:?}"), "script": "cli", "channel_capacity": 1, "preemption_bound": 0}));
                } else {
                    stats.outcome(&format!("cli:{}:pass", s.form.split(':').next().unwrap_or("")));
                }
            }
        }
    }
}
