//! C17 — the debugger reports exactly the breakpoint hits of the parse under any timing.
//! loom explores every interleaving (iterated preemption bound) of the controller thread and
//! the parser thread(s) of the *real* `DebuggerContext` source, rebound to loom by build.rs.
#[allow(dead_code, unused_imports, missing_docs, clippy::all)]
mod debugger {
    include!(concat!(env!("OUT_DIR"), "/debugger_rebound.rs"));
}
mod cli;
mod refmodel;
mod shim;

use debugger::{DebuggerContext, DebuggerError, DebuggerEvent};
use shim::sync::mpsc::{sync_channel, Receiver, TryRecvError};
use shim::trace;
use std::sync::atomic::{AtomicUsize, Ordering};
use vcore::{json, verdict, Cfg, Stats, Value};

#[derive(Clone, Debug)]
struct Scenario {
    name: &'static str,
    grammar: &'static str,
    input: &'static str,
    rule: &'static str,
    breakpoints: &'static [&'static str],
}

const SCENARIOS: &[Scenario] = &[
    Scenario { name: "two-hits", grammar: "a = { \"x\" } r = _{ a ~ a }", input: "xx", rule: "r", breakpoints: &["a"] },
    Scenario { name: "nested-hits", grammar: "a = { \"x\" } r = { a ~ a }", input: "xx", rule: "r", breakpoints: &["a", "r"] },
    Scenario { name: "no-breakpoints", grammar: "a = { \"x\" } r = { a ~ a }", input: "xx", rule: "r", breakpoints: &[] },
    Scenario { name: "failing-parse", grammar: "a = { \"x\" } r = { a ~ a }", input: "xy", rule: "r", breakpoints: &["a"] },
    // a stop at the *last* rule entry, and an abort that the grammar swallows (`*`): after a restart
    // request the old parse still ends in Ok
    Scenario { name: "single-hit", grammar: "a = { \"x\" } r = _{ a ~ \"y\"? }", input: "x", rule: "r", breakpoints: &["a"] },
    Scenario { name: "hit-in-repetition", grammar: "a = { \"x\" } r = { a ~ a* }", input: "xx", rule: "r", breakpoints: &["a"] },
    // breakpoints on built-in rules and on a silent rule; implicit WHITESPACE entries
    Scenario { name: "builtin-breakpoints", grammar: "a = { \"x\" } r = { a ~ ANY ~ a? ~ EOI }", input: "xy", rule: "r", breakpoints: &["EOI", "ANY"] },
    Scenario { name: "silent-and-whitespace", grammar: "WHITESPACE = _{ \" \" } a = _{ \"x\" } r = { a ~ a }", input: "x x", rule: "r", breakpoints: &["a", "WHITESPACE"] },
    Scenario { name: "stack-builtins", grammar: "r = { PUSH(ANY) ~ PEEK ~ POP }", input: "xxx", rule: "r", breakpoints: &["PEEK", "POP", "ANY"] },
    // an input that begins with a byte order mark (files are loaded through load_input in the
    // command-line sessions) and one that begins with blanks (the `id <text>` command)
    Scenario { name: "bom-input", grammar: "a = { \"x\" } r = { \"\\u{feff}\" ~ a ~ a }", input: "\u{feff}xx", rule: "r", breakpoints: &["a"] },
    Scenario { name: "leading-blanks", grammar: "pad = { \" \" } a = { \"x\" } r = { pad* ~ a ~ a }", input: "  xx", rule: "r", breakpoints: &["pad", "a"] },
    Scenario { name: "unicode-property-breakpoint", grammar: "w = { LETTER+ } r = { w ~ EOI }", input: "\u{e9}b", rule: "r", breakpoints: &["LETTER", "EOI"] },
    Scenario { name: "multibyte", grammar: "a = { \"é\" } r = { a ~ \"\\n\" ~ a ~ a }", input: "é\néé", rule: "r", breakpoints: &["a"] },
];

/// The entries of the parse, from the reference model (not from the VM's listener).
fn reference_trace(sc: &Scenario) -> (Vec<(String, usize)>, bool) {
    let (_, ast) = pest_meta::parse_and_optimize(sc.grammar).expect("scenario grammar");
    refmodel::entries(&ast, sc.rule, sc.input)
}

/// What a listener attached to a plain VM run is told (compared with the reference in main()).
fn vm_listener_trace(sc: &Scenario) -> Vec<(String, usize)> {
    let (_, ast) = pest_meta::parse_and_optimize(sc.grammar).expect("scenario grammar");
    let trace = std::sync::Arc::new(std::sync::Mutex::new(vec![]));
    let t2 = trace.clone();
    let vm = pest_vm::Vm::new_with_listener(
        ast,
        Box::new(move |rule, pos| {
            t2.lock().unwrap().push((rule, pos.pos()));
            false
        }),
    );
    let _ = vm.parse(sc.rule, sc.input);
    let t = trace.lock().unwrap().clone();
    t
}

/// The sequential truth: the reference entries of the parse, filtered by the breakpoint set,
/// followed by Eof or the plain VM error's text.
fn expected(sc: &Scenario, bps: &[&str]) -> Vec<DebuggerEvent> {
    let (_, ast) = pest_meta::parse_and_optimize(sc.grammar).expect("scenario grammar");
    let (trace, _) = reference_trace(sc);
    let mut ev: Vec<DebuggerEvent> = trace.iter().filter(|(r, _)| bps.contains(&r.as_str())).map(|(r, p)| DebuggerEvent::Breakpoint(r.clone(), *p)).collect();
    // the plain VM (no listener) gives the end of the stream: Eof or its error's text
    match pest_vm::Vm::new(ast).parse(sc.rule, sc.input) {
        Ok(_) => ev.push(DebuggerEvent::Eof),
        Err(e) => ev.push(DebuggerEvent::Error(e.to_string())),
    }
    ev
}

/// Breakpoint edits made by the controller while the parser is stopped at its first breakpoint.
#[derive(Clone, Copy, Debug)]
enum Edit {
    DeleteAll,
    Delete(&'static str),
    Add(&'static str),
    AddAll,
}

fn edits_of(script_name: &str) -> Vec<Edit> {
    match script_name {
        "S2" => vec![Edit::Delete("a"), Edit::Add("a"), Edit::Add("zzz")],
        "S2-delete-all" => vec![Edit::DeleteAll],
        "S2-delete-all-add" => vec![Edit::DeleteAll, Edit::Add("a")],
        "S2-delete" => vec![Edit::Delete("a")],
        "S2-add-all" => vec![Edit::AddAll],
        "S2-swap" => vec![Edit::Delete("a"), Edit::Add("r")],
        _ => vec![],
    }
}

/// The sequential truth when the breakpoint set is edited after the first delivered event:
/// an entry of the listener trace is delivered iff its rule is in the set *at that moment*.
fn expected_with_edits(sc: &Scenario, edits: &[Edit]) -> Vec<DebuggerEvent> {
    let (_, ast) = pest_meta::parse_and_optimize(sc.grammar).expect("scenario grammar");
    let all_rules: Vec<String> = ast.iter().map(|r| r.name.clone()).collect();
    let (trace, _) = reference_trace(sc);
    let mut set: Vec<String> = sc.breakpoints.iter().map(|s| s.to_string()).collect();
    let mut ev = vec![];
    let mut edited = false;
    for (r, p) in trace.iter() {
        if set.contains(r) {
            ev.push(DebuggerEvent::Breakpoint(r.clone(), *p));
            if !edited {
                edited = true;
                for e in edits {
                    match e {
                        Edit::DeleteAll => set.clear(),
                        Edit::Delete(x) => set.retain(|y| y != x),
                        Edit::Add(x) => {
                            if !set.contains(&x.to_string()) {
                                set.push(x.to_string())
                            }
                        }
                        Edit::AddAll => {
                            for x in &all_rules {
                                if !set.contains(x) {
                                    set.push(x.clone())
                                }
                            }
                        }
                    }
                }
            }
        }
    }
    let plain = pest_vm::Vm::new(ast);
    match plain.parse(sc.rule, sc.input) {
        Ok(_) => ev.push(DebuggerEvent::Eof),
        Err(e) => ev.push(DebuggerEvent::Error(e.to_string())),
    }
    ev
}

fn context(sc: &Scenario) -> DebuggerContext {
    let mut c = DebuggerContext::default();
    c.load_grammar_direct("scenario", sc.grammar).expect("grammar");
    c.load_input_direct(sc.input.to_owned());
    for b in sc.breakpoints {
        c.add_breakpoint(b.to_string());
    }
    c
}

/// Drive one run to its end: receive, check that nothing further arrives while the parser waits,
/// continue. `edit` is called while the parser is stopped at the first breakpoint.
fn drive(ctx: &mut DebuggerContext, rx: &Receiver<DebuggerEvent>, want: &[DebuggerEvent], edit: impl FnMut(&mut DebuggerContext)) {
    drive_with(ctx, rx, want, edit, false)
}

/// `surplus_cont`: at the last stop of the run `cont` is issued twice (a legal, if pointless, command:
/// it must neither be refused with anything but EofReached nor leak into a later run).
fn drive_with(ctx: &mut DebuggerContext, rx: &Receiver<DebuggerEvent>, want: &[DebuggerEvent], mut edit: impl FnMut(&mut DebuggerContext), surplus_cont: bool) {
    let mut got: Vec<DebuggerEvent> = vec![];
    let mut first = true;
    loop {
        let ev = rx.recv().expect("the parser thread dropped the channel without a final event");
        match ev {
            DebuggerEvent::Breakpoint(..) => {
                got.push(ev);
                // it delivers nothing while waiting for a continue
                match rx.try_recv() {
                    Err(TryRecvError::Empty) => {}
                    other => panic!("PROPERTY: an event arrived while the parser should be waiting for cont: {other:?}"),
                }
                if first {
                    first = false;
                    edit(ctx);
                }
                match ctx.cont() {
                    Ok(()) => {}
                    Err(e) => panic!("PROPERTY: cont() failed while stopped at a breakpoint: {e}"),
                }
                if surplus_cont && got.len() + 1 == want.len() {
                    match ctx.cont() {
                        Ok(()) | Err(DebuggerError::EofReached) => {}
                        Err(e) => panic!("PROPERTY: a second cont at the last stop: {e}"),
                    }
                }
            }
            other => {
                got.push(other);
                break;
            }
        }
    }
    if got != want {
        panic!("PROPERTY: delivered events {got:?} differ from the parse's breakpoint hits {want:?}");
    }
}

fn script(name: &str, sc: &Scenario, cap: usize) {
    trace::reset();
    shim::thread::reset_names();
    let mut ctx = context(sc);
    let bps: Vec<&str> = sc.breakpoints.to_vec();
    let want = expected_cached(sc, &bps);
    match name {
        // S1: run -> (recv, nothing further arrives, cont)* -> Eof/Error
        "S1" => {
            let (tx, rx) = sync_channel(cap);
            ctx.run(sc.rule, tx).expect("run");
            drive(&mut ctx, &rx, &want, |_| {});
            // after the end: cont must say EofReached once the parser has finished
        }
        // S2*: breakpoints are edited while the parser is stopped at the first one; the hits that
        // follow are those of the edited set
        n if n.starts_with("S2") => {
            let edits = edits_of(n);
            let want = expected_edits_cached(sc, &edits);
            let (tx, rx) = sync_channel(cap);
            ctx.run(sc.rule, tx).expect("run");
            drive(&mut ctx, &rx, &want, |c| {
                for e in &edits {
                    match e {
                        Edit::DeleteAll => c.delete_all_breakpoints(),
                        Edit::Delete(x) => c.delete_breakpoint(x),
                        Edit::Add(x) => c.add_breakpoint(x.to_string()),
                        Edit::AddAll => c.add_all_rules_breakpoints().expect("grammar loaded"),
                    }
                }
            });
        }
        // S3: receive the first event, then re-run; the second run is driven to its end
        "S3" => {
            let (tx, rx) = sync_channel(cap);
            ctx.run(sc.rule, tx).expect("run");
            let first = rx.recv().expect("first event");
            if first != want[0] {
                panic!("PROPERTY: first event {first:?}, expected {:?}", want[0]);
            }
            let (tx2, rx2) = sync_channel(cap);
            restart(&mut ctx, sc, tx2, &[&rx]);
            drive(&mut ctx, &rx2, &want, |_| {});
            drop(rx);
        }
        // S4: re-run immediately (restart racing with delivery); exact precondition enforced
        "S4" => {
            let (tx, rx) = sync_channel(cap);
            ctx.run(sc.rule, tx).expect("run");
            loom::thread::yield_now();
            let (tx2, rx2) = sync_channel(cap);
            restart(&mut ctx, sc, tx2, &[&rx]);
            drive(&mut ctx, &rx2, &want, |_| {});
            drop(rx);
        }
        // S5: run to the end, cont must then be refused, then re-run
        "S5" => {
            let (tx, rx) = sync_channel(cap);
            ctx.run(sc.rule, tx).expect("run");
            drive(&mut ctx, &rx, &want, |_| {});
            let (tx2, rx2) = sync_channel(cap);
            restart(&mut ctx, sc, tx2, &[&rx]);
            drive(&mut ctx, &rx2, &want, |_| {});
            match ctx.cont() {
                // the parser thread may not have stored is_done yet: both answers are legitimate here
                Ok(()) | Err(DebuggerError::EofReached) => {}
                Err(e) => panic!("PROPERTY: cont after the end: {e}"),
            }
        }
        // S7: the controller lists and (harmlessly) edits the breakpoints while the parser is running
        "S7" => {
            let (tx, rx) = sync_channel(cap);
            ctx.run(sc.rule, tx).expect("run");
            let listed = ctx.list_breakpoints();
            if listed.len() != sc.breakpoints.len() {
                panic!("PROPERTY: list_breakpoints gives {listed:?}");
            }
            ctx.add_breakpoint("zzz-not-a-rule".to_string());
            drive(&mut ctx, &rx, &want, |c| {
                let _ = c.list_breakpoints();
            });
        }
        // S6: one cont too many at the last stop of the first run, then a second run
        "S6" => {
            let (tx, rx) = sync_channel(cap);
            ctx.run(sc.rule, tx).expect("run");
            drive_with(&mut ctx, &rx, &want, |_| {}, true);
            let (tx2, rx2) = sync_channel(cap);
            restart(&mut ctx, sc, tx2, &[&rx]);
            drive(&mut ctx, &rx2, &want, |_| {});
        }
        _ => unreachable!(),
    }
    // every thread must be able to finish: loom reports threads blocked forever as a deadlock
    drop(ctx);
}

/// Re-run with the property's precondition enforced exactly: everything delivered so far has
/// been received at the instant `run` is entered (the counters are plain std atomics, invisible
/// to loom, so there is no scheduling point between the check and the call).
fn restart(ctx: &mut DebuggerContext, sc: &Scenario, tx: shim::sync::mpsc::SyncSender<DebuggerEvent>, old: &[&Receiver<DebuggerEvent>]) {
    loop {
        let (e, r) = (trace::ENQUEUED.load(Ordering::SeqCst), trace::RECEIVED.load(Ordering::SeqCst));
        if e == r {
            break;
        }
        for rx in old {
            let _ = rx.try_recv();
        }
    }
    match ctx.run(sc.rule, tx) {
        Ok(()) => {}
        Err(e) => panic!("PROPERTY: restarting failed: {e}"),
    }
}

static EXPECTED: std::sync::Mutex<Option<Vec<DebuggerEvent>>> = std::sync::Mutex::new(None);
fn expected_cached(sc: &Scenario, bps: &[&str]) -> Vec<DebuggerEvent> {
    let mut g = EXPECTED.lock().unwrap();
    if g.is_none() {
        *g = Some(expected(sc, bps));
    }
    g.as_ref().unwrap().iter().map(|e| match e {
        DebuggerEvent::Breakpoint(r, p) => DebuggerEvent::Breakpoint(r.clone(), *p),
        DebuggerEvent::Eof => DebuggerEvent::Eof,
        DebuggerEvent::Error(s) => DebuggerEvent::Error(s.clone()),
    }).collect()
}

static EXPECTED_EDITS: std::sync::Mutex<Option<Vec<DebuggerEvent>>> = std::sync::Mutex::new(None);
fn expected_edits_cached(sc: &Scenario, edits: &[Edit]) -> Vec<DebuggerEvent> {
    let mut g = EXPECTED_EDITS.lock().unwrap();
    if g.is_none() {
        *g = Some(expected_with_edits(sc, edits));
    }
    g.as_ref().unwrap().iter().map(|e| match e {
        DebuggerEvent::Breakpoint(r, p) => DebuggerEvent::Breakpoint(r.clone(), *p),
        DebuggerEvent::Eof => DebuggerEvent::Eof,
        DebuggerEvent::Error(s) => DebuggerEvent::Error(s.clone()),
    }).collect()
}

static EXECUTIONS: AtomicUsize = AtomicUsize::new(0);

/// Child mode: explore one (script, scenario, capacity, bound); prints `EXECUTIONS n`.
fn child(script_name: &str, scen: &str, cap: usize, bound: Option<usize>) -> ! {
    let sc = SCENARIOS.iter().find(|s| s.name == scen).expect("scenario").clone();
    // "S1+sp0": script S1 with a spurious wake-up at the first park call of every execution
    let (script_name, spurious) = match script_name.split_once("+sp") {
        Some((base, j)) => (base.to_string(), j.parse::<isize>().expect("spurious index")),
        None => (script_name.to_string(), -1),
    };
    shim::thread::SPURIOUS_AT.store(spurious, Ordering::SeqCst);
    std::panic::set_hook(Box::new(|info| {
        let msg = info.payload().downcast_ref::<&str>().map(|s| s.to_string()).or_else(|| info.payload().downcast_ref::<String>().cloned()).unwrap_or_default();
        // the first panic is the interesting one
        static ONCE: std::sync::Once = std::sync::Once::new();
        ONCE.call_once(|| {
            println!("FAILURE {}", msg.replace('\n', " | "));
            println!("BLOCKED {}", trace::snapshot());
            println!("EXECUTIONS {}", EXECUTIONS.load(Ordering::SeqCst));
        });
    }));
    let mut b = loom::model::Builder::new();
    b.preemption_bound = bound;
    b.max_branches = 100_000;
    let budget = std::time::Duration::from_secs(if bound.is_none() { 120 } else { 600 });
    b.max_duration = Some(budget);
    let t0 = std::time::Instant::now();
    b.check(move || {
        EXECUTIONS.fetch_add(1, Ordering::SeqCst);
        shim::thread::PARK_CALLS.store(0, Ordering::SeqCst);
        script(&script_name, &sc, cap);
    });
    println!("EXECUTIONS {}", EXECUTIONS.load(Ordering::SeqCst));
    // loom stops silently when max_duration elapses: that is a cap, not a completed exploration
    if t0.elapsed() + std::time::Duration::from_secs(1) >= budget {
        println!("CAPPED");
    } else {
        println!("COMPLETED");
    }
    std::process::exit(0)
}

struct RunResult {
    executions: u64,
    completed: bool,
    failure: Option<String>,
    blocked: String,
}

fn run_child(script_name: &str, scen: &str, cap: usize, bound: Option<usize>, timeout_s: u64) -> RunResult {
    let exe = std::env::current_exe().unwrap();
    let mut cmd = std::process::Command::new(exe);
    cmd.args(["--child", script_name, scen, &cap.to_string(), &bound.map(|b| b.to_string()).unwrap_or("none".into())]);
    cmd.stdout(std::process::Stdio::piped()).stderr(std::process::Stdio::null());
    let mut ch = cmd.spawn().expect("spawn");
    let t0 = std::time::Instant::now();
    let mut timed_out = false;
    loop {
        match ch.try_wait() {
            Ok(Some(_)) => break,
            Ok(None) => {}
            Err(_) => break,
        }
        if t0.elapsed().as_secs() > timeout_s {
            let _ = ch.kill();
            timed_out = true;
            break;
        }
        std::thread::sleep(std::time::Duration::from_millis(10));
    }
    let out = ch.wait_with_output().map(|o| String::from_utf8_lossy(&o.stdout).to_string()).unwrap_or_default();
    let mut r = RunResult { executions: 0, completed: false, failure: None, blocked: String::new() };
    for l in out.lines() {
        if let Some(x) = l.strip_prefix("EXECUTIONS ") {
            r.executions = x.trim().parse().unwrap_or(0);
        } else if l == "COMPLETED" {
            r.completed = true;
        } else if let Some(x) = l.strip_prefix("FAILURE ") {
            if r.failure.is_none() {
                r.failure = Some(x.to_string());
            }
        } else if let Some(x) = l.strip_prefix("BLOCKED ") {
            r.blocked = x.to_string();
        }
    }
    if timed_out && r.failure.is_none() {
        r.failure = None;
        r.completed = false;
    }
    r
}

fn main() {
    let args: Vec<String> = std::env::args().collect();
    if args.get(1).map(|s| s.as_str()) == Some("--child") {
        let bound = if args[5] == "none" { None } else { Some(args[5].parse().unwrap()) };
        child(&args[2], &args[3], args[4].parse().unwrap(), bound);
    }
    let cfg = Cfg::from_env();
    let known = verdict::Known::load();
    if let Some(p) = &cfg.replay {
        let case = verdict::load_replay(p);
        let script = case["script"].as_str().unwrap_or("");
        if script == "sequential" || script == "cli" {
            let sc = SCENARIOS.iter().find(|s| Some(s.name) == case["scenario"].as_str()).expect("scenario");
            let mut st = Stats::new();
            if script == "sequential" {
                let (want, _) = reference_trace(sc);
                let got = vm_listener_trace(sc);
                println!("listener was told {got:?}\nreference entries {want:?}");
                if got != want {
                    st.violation(json!({}));
                }
            } else {
                let bin = std::env::var_os("VERIF_CLI").expect("VERIF_CLI");
                let dir = std::path::PathBuf::from(std::env::var("CARGO_TARGET_DIR").unwrap_or_else(|_| "/verif/.target".into())).join(format!("c17-cli-{}", std::process::id()));
                std::fs::create_dir_all(&dir).expect("scratch dir");
                let ev = expected(sc, sc.breakpoints);
                let hits: Vec<(String, usize)> = ev.iter().filter_map(|e| if let DebuggerEvent::Breakpoint(r, p) = e { Some((r.clone(), *p)) } else { None }).collect();
                let end = match ev.last() {
                    Some(DebuggerEvent::Error(t)) => Some(t.clone()),
                    _ => None,
                };
                cli::check(&bin, &dir, sc.name, sc.grammar, sc.input, sc.rule, sc.breakpoints, &hits, end.as_deref(), &mut st);
                let _ = std::fs::remove_dir_all(&dir);
                for v in &st.violations {
                    println!("{v:#}");
                }
            }
            if st.get("violations") > 0 {
                println!("VIOLATION property=C17 replay={p}");
                std::process::exit(1)
            }
            println!("replay: property holds on this case");
            std::process::exit(0)
        }
        let r = run_child(case["script"].as_str().unwrap(), case["scenario"].as_str().unwrap(), case["channel_capacity"].as_u64().unwrap() as usize, case["preemption_bound"].as_u64().map(|b| b as usize), 600);
        println!("replay: executions {} completed {} failure {:?} blocked [{}]", r.executions, r.completed, r.failure, r.blocked);
        if r.failure.is_some() {
            println!("VIOLATION property=C17 replay={p}");
            std::process::exit(1)
        }
        std::process::exit(0)
    }
    let quick = cfg.quick();
    let bounds: Vec<Option<usize>> = if quick { vec![Some(0), Some(1), Some(2), Some(3), Some(4)] } else { vec![Some(0), Some(1), Some(2), Some(3), Some(4), Some(5), Some(6), None] };
    // work items
    let mut items: Vec<(&str, &Scenario, usize, Option<usize>)> = vec![];
    for sc in SCENARIOS {
        for s in ["S1", "S2", "S2-delete-all", "S2-delete-all-add", "S2-delete", "S2-add-all", "S2-swap", "S3", "S4", "S5", "S6", "S7"] {
            if (s.starts_with("S2") || s == "S3" || s == "S6" || s == "S7") && sc.breakpoints.is_empty() {
                continue;
            }

            for cap in [1usize, 2] {
                if cap == 2 && !(s == "S4" || s == "S3") {
                    continue;
                }
                // scenarios with more than three stops: the deepest bounds would only hit their time caps
                let many_stops = expected(sc, sc.breakpoints).len() > 4;
                for b in bounds.iter().filter(|b| !many_stops || matches!(b, Some(x) if *x <= 4)) {
                    items.push((s, sc, cap, *b));
                }
            }
        }
        // one spurious wake-up (std permits them) at the first / second wait for `cont`
        if !sc.breakpoints.is_empty() {
            for s in ["S1+sp0", "S1+sp1", "S2+sp0", "S3+sp0", "S4+sp0"] {
                for b in bounds.iter().filter(|b| matches!(b, Some(x) if *x <= 2)) {
                    items.push((s, sc, 1, *b));
                }
            }
        }
    }
    let mut stats = Stats::new();
    // sequential part: what the VM announces to a listener must be exactly the entries of the parse
    // (every rule entry, built-ins and implicit WHITESPACE/COMMENT attempts included) per the reference
    for sc in SCENARIOS {
        let (want, _) = reference_trace(sc);
        let got = vm_listener_trace(sc);
        stats.inc("evaluations");
        stats.inc("listener_traces_compared");
        if got != want {
            stats.violation_class("vm-listener-trace", json!({"kind": "vm-listener-trace-differs-from-the-entries-of-the-parse", "scenario": sc.name, "grammar": sc.grammar, "input": sc.input, "rule": sc.rule, "listener_was_told": got, "reference_entries": want, "script": "sequential", "channel_capacity": 1, "preemption_bound": 0}));
        }
    }
    // the command-line front end: every session form must print the same stream
    match std::env::var_os("VERIF_CLI") {
        None => stats.failures.push("VERIF_CLI (path of the built pest_debugger binary) is not set; run through /verif/check".into()),
        Some(bin) => {
            let dir = std::path::PathBuf::from(std::env::var("CARGO_TARGET_DIR").unwrap_or_else(|_| "/verif/.target".into())).join(format!("c17-cli-{}", std::process::id()));
            std::fs::create_dir_all(&dir).expect("scratch dir");
            for sc in SCENARIOS {
                let ev = expected(sc, sc.breakpoints);
                let hits: Vec<(String, usize)> = ev.iter().filter_map(|e| if let DebuggerEvent::Breakpoint(r, p) = e { Some((r.clone(), *p)) } else { None }).collect();
                let end = match ev.last() {
                    Some(DebuggerEvent::Error(t)) => Some(t.clone()),
                    _ => None,
                };
                cli::check(&bin, &dir, sc.name, sc.grammar, sc.input, sc.rule, sc.breakpoints, &hits, end.as_deref(), &mut stats);
            }
            let _ = std::fs::remove_dir_all(&dir);
        }
    }
    let next = AtomicUsize::new(0);
    let results: Vec<(usize, RunResult)> = std::thread::scope(|scp| {
        let hs: Vec<_> = (0..cfg.jobs)
            .map(|_| {
                let (items, next) = (&items, &next);
                scp.spawn(move || {
                    let mut out = vec![];
                    loop {
                        let i = next.fetch_add(1, Ordering::SeqCst);
                        let Some((s, sc, cap, b)) = items.get(i) else { break };
                        out.push((i, run_child(s, sc.name, *cap, *b, if b.is_none() { 200 } else { 900 })));
                    }
                    out
                })
            })
            .collect();
        hs.into_iter().flat_map(|h| h.join().unwrap()).collect()
    });
    let mut states = 0u64;
    let mut sorted = results;
    sorted.sort_by_key(|x| x.0);
    for (i, r) in sorted {
        let (s, sc, cap, b) = items[i];
        states += r.executions;
        stats.add("evaluations", r.executions);
        stats.add("distinct_nontrivial", r.executions.saturating_sub(1));
        stats.inc("models");
        let case = json!({"kind": "debugger-schedule-breaks-property", "script": s, "scenario": sc.name, "grammar": sc.grammar, "input": sc.input, "breakpoints": sc.breakpoints, "channel_capacity": cap, "preemption_bound": b, "executions_until_failure": r.executions, "failure": r.failure, "blocked_threads": r.blocked});
        match (&r.failure, r.completed) {
            (None, true) => {
                stats.outcome(&format!("{s}:cap{cap}:pass"));
                stats.max(&format!("preemption_bound_completed.{s}"), b.map(|x| x as u64).unwrap_or(99));
                if stats.samples.len() < 4 && b == Some(2) {
                    stats.sample(|| json!({"script": s, "scenario": sc.name, "channel_capacity": cap, "preemption_bound": b, "executions": r.executions, "result": "every execution delivered exactly the expected events"}));
                }
            }
            (None, false) => {
                stats.cap(&format!("{s}/{}/cap{cap}/bound {b:?}: exploration stopped by its time cap after {} executions", sc.name, r.executions));
            }
            (Some(f), _) => {
                stats.outcome(&format!("{s}:cap{cap}:fail"));
                // known finding: restart racing with a delivery on the 1-slot channel —
                // controller blocked in join, old parser blocked in its final send
                let is_restart_deadlock = f.contains("deadlock") && (s == "S4" || s == "S3" || s == "S5") && cap == 1 && r.blocked.contains("controller:join") && r.blocked.contains(":send");
                if is_restart_deadlock && known.open("C17", "restart-races-with-delivery") {
                    stats.known("restart-races-with-delivery", || case.clone());
                } else {
                    stats.violation_class(&format!("{s}.{}", if f.contains("deadlock") { "deadlock" } else if f.contains("PROPERTY") { "property" } else { "other" }), case);
                }
            }
        }
    }
    let mut cov = vcore::Map::new();
    cov.insert("states".into(), json!(states));
    cov.insert("transitions".into(), json!(states));
    cov.insert("traces_validated_against_impl".into(), json!(states));
    cov.insert("rule".into(), json!("loom (DPOR, iterated preemption bound) on the real debugger/src/lib.rs rebound to loom primitives by build.rs: scripts S1 (run, receive/continue to the end), S2 (breakpoints edited while stopped), S3 (re-run after the first event), S4 (re-run immediately, precondition enforced exactly), S5 (run to the end, re-run), S6 (a surplus cont at the last stop, then re-run), S7 (breakpoints listed / edited while the parser is running) x 13 grammar/input/breakpoint scenarios (two hits, nested hits, none, failing parse, single hit, hit in a repetition, breakpoints on built-ins / silent rules / implicit WHITESPACE / stack built-ins, multi-byte input) x channel capacity 1 (as the CLI) and 2 (S3/S4). In every execution: delivered events == the reference entries of the parse (S_doc on the optimized rules, every rule entry incl. built-ins; the VM's own listener trace is compared with it sequentially) filtered by the breakpoint set + Eof / the plain VM error text; try_recv between a breakpoint and its cont is empty; every run() returns and all threads terminate (loom reports blocked-forever threads). states = executions (complete interleavings) explored; each is a run of the real code"));
    let v: Value = json!(bounds.iter().map(|b| b.map(|x| x.to_string()).unwrap_or("unbounded".into())).collect::<Vec<_>>());
    cov.insert("preemption_bounds".into(), v);
    verdict::conclude(verdict::Report {
        property: "C17",
        level: "model_checking",
        cfg: &cfg,
        stats,
        coverage: cov,
        assumptions: vec![
            "spurious park wake-ups are not generated by loom".into(),
            "the bounded channel is the harness' loom model of std::sync::mpsc::sync_channel (capacity >= 1)".into(),
            "memory orderings as modelled by loom (C11)".into(),
        ],
    })
}
