//! The sequential reference for "the (rule, position) entries of the parse": S_doc (the
//! executable reading of the grammar prose, shared with C01/C08) run on the optimized rules the
//! debugger's VM executes, recording every rule entry - user rules of every modifier, built-ins,
//! implicit WHITESPACE/COMMENT attempts - in evaluation order. It does not go through
//! `Vm::parse_rule`, so a VM that forgets to announce an entry is seen.
#[allow(dead_code, unused)]
#[path = "../../sdoc/src/model.rs"]
pub mod model;

use pest_meta::ast::{Expr, Rule};
use pest_meta::optimizer::{OptimizedExpr as O, OptimizedRule};

fn back(e: &O) -> Expr {
    let b = |x: &O| Box::new(back(x));
    match e {
        O::Str(s) => Expr::Str(s.clone()),
        O::Insens(s) => Expr::Insens(s.clone()),
        O::Range(a, b2) => Expr::Range(a.clone(), b2.clone()),
        O::Ident(i) => Expr::Ident(i.clone()),
        O::PeekSlice(a, b2) => Expr::PeekSlice(*a, *b2),
        O::PosPred(x) => Expr::PosPred(b(x)),
        O::NegPred(x) => Expr::NegPred(b(x)),
        O::Seq(x, y) => Expr::Seq(b(x), b(y)),
        O::Choice(x, y) => Expr::Choice(b(x), b(y)),
        O::Opt(x) => Expr::Opt(b(x)),
        O::Rep(x) => Expr::Rep(b(x)),
        O::Skip(v) => Expr::Skip(v.clone()),
        O::Push(x) => Expr::Push(b(x)),
        O::RestoreOnErr(x) => back(x),
        #[allow(unreachable_patterns)]
        other => panic!("refmodel: expression outside the default-feature language: {other:?}"),
    }
}

/// (entries in evaluation order, did the parse match)
pub fn entries(opt: &[OptimizedRule], rule: &str, input: &str) -> (Vec<(String, usize)>, bool) {
    let rules: Vec<Rule> = opt.iter().map(|r| Rule { name: r.name.clone(), ty: r.ty, expr: back(&r.expr) }).collect();
    let g = model::Gm::new(&rules);
    let mut ev = model::Ev::new(&g, input);
    ev.trace = Some(vec![]);
    let r = ev.run(rule);
    (ev.trace.take().unwrap(), matches!(r, model::R::M(_)))
}
