//! Rebinds the *real* debugger source (/repo/debugger/src/lib.rs, read from the working tree at
//! build time) to loom: the single `use std::{...}` group is split so that everything under
//! `sync::` and `thread::` comes from `crate::shim` (newtypes over loom primitives plus a bounded
//! channel); crate-level inner attributes are stripped. Nothing else is touched. A source whose
//! import group cannot be found is a hard build error (machinery failure, never a verdict).
fn main() {
    println!("cargo:rerun-if-changed=/repo/debugger/src/lib.rs");
    println!("cargo:rerun-if-changed=build.rs");
    let src = std::fs::read_to_string("/repo/debugger/src/lib.rs").expect("read debugger lib.rs");
    // strip inner attributes `#![ ... ]` (may span lines)
    let mut out = String::new();
    let mut rest = src.as_str();
    while let Some(i) = rest.find("#![") {
        out.push_str(&rest[..i]);
        let close = rest[i..].find(")]").map(|j| i + j + 2).or_else(|| rest[i..].find(']').map(|j| i + j + 1)).expect("unterminated inner attribute");
        rest = &rest[close..];
    }
    out.push_str(rest);
    // crate-level inner doc comments cannot live inside an included module
    let out: String = out.lines().filter(|l| !l.trim_start().starts_with("//!")).collect::<Vec<_>>().join("\n");
    // the import group
    let start = out.find("use std::{").expect("debugger source: `use std::{` group not found");
    let mut depth = 0;
    let mut end = start;
    for (i, c) in out[start..].char_indices() {
        match c {
            '{' => depth += 1,
            '}' => {
                depth -= 1;
                if depth == 0 {
                    end = start + i + 1;
                    break;
                }
            }
            _ => {}
        }
    }
    let group = &out[start..end];
    assert!(group.contains("sync::{") && group.contains("thread::{"), "debugger source: import group no longer has sync::/thread:: members: {group}");
    assert!(out[end..].trim_start().starts_with(';'));
    // split the group into top-level members
    let inner = &group["use std::{".len()..group.len() - 1];
    let mut members = vec![];
    let mut cur = String::new();
    let mut d = 0;
    for c in inner.chars() {
        match c {
            '{' => {
                d += 1;
                cur.push(c)
            }
            '}' => {
                d -= 1;
                cur.push(c)
            }
            ',' if d == 0 => {
                members.push(cur.trim().to_string());
                cur.clear();
            }
            _ => cur.push(c),
        }
    }
    if !cur.trim().is_empty() {
        members.push(cur.trim().to_string());
    }
    let (shimmed, plain): (Vec<String>, Vec<String>) = members.into_iter().partition(|m| m.starts_with("sync::") || m.starts_with("thread::") || m == "thread" || m == "sync");
    let replacement = format!("use std::{{{}}};\nuse crate::shim::{{{}}}", plain.join(", "), shimmed.join(", "));
    let rebound = format!("{}{}{}", &out[..start], replacement, &out[end..]);
    // any other direct mention of std::sync / std::thread would escape the scheduler
    let body_after: String = rebound.replace(&replacement, "").lines().filter(|l| !l.trim_start().starts_with("//")).collect::<Vec<_>>().join("\n");
    for needle in ["std::sync", "std::thread"] {
        if let Some(pos) = body_after.find(needle) {
            // allowed inside the #[cfg(test)] module only
            let test_mod = body_after.find("#[cfg(test)]").unwrap_or(usize::MAX);
            assert!(pos > test_mod, "debugger source mentions {needle} outside the import group: not intercepted by loom");
        }
    }
    let path = std::path::PathBuf::from(std::env::var("OUT_DIR").unwrap()).join("debugger_rebound.rs");
    std::fs::write(path, rebound).unwrap();
}
