//! Process-level worker pool. Every explorer worker is a single-threaded process
//! (pest's two process-global switches are then owned by the worker), announces the
//! case it is about to run, and is killed and resumed past that case by the parent
//! if it stalls or dies: a hang or abort of the code under test is a *result about
//! that case*, an inexplicable worker death is a machinery failure.
use crate::stats::Stats;
use serde_json::{json, Value};
use std::io::{BufRead, BufReader, Write};
use std::process::{Command, Stdio};
use std::sync::{Arc, Mutex};
use std::time::{Duration, Instant};

pub struct Worker {
    pub shard: usize,
    pub n: usize,
    skip: Vec<u64>,
    out: std::io::Stdout,
    next_idx: u64,
}

impl Worker {
    /// Some(worker) when this process was spawned by `run_pool`.
    pub fn from_env() -> Option<Worker> {
        let w = std::env::var("VERIF_WORKER").ok()?;
        let (a, b) = w.split_once('/')?;
        let skip = std::env::var("VERIF_SKIP")
            .ok()
            .map(|s| s.split(',').filter_map(|x| x.parse().ok()).collect())
            .unwrap_or_default();
        Some(Worker {
            shard: a.parse().ok()?,
            n: b.parse().ok()?,
            skip,
            out: std::io::stdout(),
            next_idx: 0,
        })
    }
    /// A worker that runs everything in-process (used by --replay and tests).
    pub fn solo() -> Worker {
        Worker {
            shard: 0,
            n: 1,
            skip: vec![],
            out: std::io::stdout(),
            next_idx: 0,
        }
    }
    pub fn mine(&self, index: u64) -> bool {
        (index % self.n as u64) as usize == self.shard
    }
    /// Announce the unit of work about to be run. Returns false if the parent has
    /// told us to skip it (it killed a previous incarnation of this shard there).
    pub fn begin(&mut self, describe: impl FnOnce() -> String) -> bool {
        let idx = self.next_idx;
        self.next_idx += 1;
        if self.skip.contains(&idx) {
            return false;
        }
        if std::env::var_os("VERIF_WORKER").is_some() {
            let d = describe().replace('\n', "\\n");
            let mut o = self.out.lock();
            let _ = writeln!(o, "@CASE {idx} {d}");
            let _ = o.flush();
        }
        true
    }
    pub fn finish(self, stats: Stats) -> ! {
        let mut o = self.out.lock();
        let _ = writeln!(o, "@STATS {}", stats.to_json());
        let _ = o.flush();
        std::process::exit(0)
    }
}

#[derive(Debug, Clone)]
pub enum Death {
    Exit(i32),
    Signal(i32),
    Stalled(u64),
}

pub struct PoolOpts {
    pub jobs: usize,
    /// seconds a worker may stay on one announced case
    pub stall_secs: u64,
    /// how many times one shard may be resumed after a death before it is abandoned
    pub max_resumes: usize,
    pub env: Vec<(String, String)>,
    /// rlimit on the worker's main-thread stack in KiB (0 = inherit)
    pub stack_kib: u64,
    /// address-space limit in MiB (0 = inherit)
    pub mem_mib: u64,
    /// executable to run as worker (default: the current one)
    pub exe: Option<std::path::PathBuf>,
}

impl PoolOpts {
    pub fn new(jobs: usize) -> PoolOpts {
        PoolOpts {
            jobs,
            stall_secs: 60,
            max_resumes: 8,
            env: vec![],
            stack_kib: 0,
            mem_mib: 0,
            exe: None,
        }
    }
}

pub struct PoolResult {
    pub stats: Stats,
    /// (shard, how it died, the case it was on)
    pub deaths: Vec<(usize, Death, String)>,
}

struct Shared {
    last_case: Option<(u64, String)>,
    last_beat: Instant,
    stats: Option<Value>,
}

/// Spawn `jobs` copies of the current executable (same arguments) as shard workers
/// and merge what they report.
pub fn run_pool(opts: &PoolOpts) -> PoolResult {
    let exe = opts.exe.clone().unwrap_or_else(|| std::env::current_exe().expect("current_exe"));
    let args: Vec<String> = std::env::args().skip(1).collect();
    let n = opts.jobs;
    let results: Arc<Mutex<Vec<(usize, Option<Stats>, Vec<(Death, String)>)>>> =
        Arc::new(Mutex::new(vec![]));
    let mut handles = vec![];
    for shard in 0..n {
        let exe = exe.clone();
        let args = args.clone();
        let env = opts.env.clone();
        let stall = opts.stall_secs;
        let max_resumes = opts.max_resumes;
        let (stack_kib, mem_mib) = (opts.stack_kib, opts.mem_mib);
        let results = results.clone();
        handles.push(std::thread::spawn(move || {
            let mut skip: Vec<u64> = vec![];
            let mut deaths: Vec<(Death, String)> = vec![];
            let mut stats: Option<Stats> = None;
            loop {
                let mut cmd = if stack_kib > 0 || mem_mib > 0 {
                    let mut c = Command::new("/bin/sh");
                    let mut script = String::new();
                    if stack_kib > 0 {
                        script.push_str(&format!("ulimit -s {stack_kib}; "));
                    }
                    if mem_mib > 0 {
                        script.push_str(&format!("ulimit -v {}; ", mem_mib * 1024));
                    }
                    script.push_str("exec \"$0\" \"$@\"");
                    c.arg("-c").arg(script).arg(&exe).args(&args);
                    c
                } else {
                    let mut c = Command::new(&exe);
                    c.args(&args);
                    c
                };
                cmd.env("VERIF_WORKER", format!("{shard}/{n}"))
                    .env(
                        "VERIF_SKIP",
                        skip.iter().map(|x| x.to_string()).collect::<Vec<_>>().join(","),
                    )
                    .stdin(Stdio::null())
                    .stdout(Stdio::piped())
                    .stderr(Stdio::inherit());
                for (k, v) in &env {
                    cmd.env(k, v);
                }
                let mut child = cmd.spawn().expect("spawn worker");
                let shared = Arc::new(Mutex::new(Shared {
                    last_case: None,
                    last_beat: Instant::now(),
                    stats: None,
                }));
                let out = child.stdout.take().unwrap();
                let sh2 = shared.clone();
                let reader = std::thread::spawn(move || {
                    let r = BufReader::new(out);
                    for line in r.lines() {
                        let Ok(line) = line else { break };
                        if let Some(rest) = line.strip_prefix("@CASE ") {
                            let (i, d) = rest.split_once(' ').unwrap_or((rest, ""));
                            let mut s = sh2.lock().unwrap();
                            s.last_case = Some((i.parse().unwrap_or(0), d.to_string()));
                            s.last_beat = Instant::now();
                        } else if let Some(rest) = line.strip_prefix("@STATS ") {
                            let mut s = sh2.lock().unwrap();
                            s.stats = serde_json::from_str(rest).ok();
                            s.last_beat = Instant::now();
                        } else {
                            println!("{line}");
                        }
                    }
                });
                // watchdog loop
                let death: Option<Death> = loop {
                    match child.try_wait() {
                        Ok(Some(st)) => {
                            use std::os::unix::process::ExitStatusExt;
                            break if st.success() {
                                None
                            } else if let Some(sig) = st.signal() {
                                Some(Death::Signal(sig))
                            } else {
                                Some(Death::Exit(st.code().unwrap_or(-1)))
                            };
                        }
                        Ok(None) => {}
                        Err(_) => break Some(Death::Exit(-2)),
                    }
                    let stalled = {
                        let s = shared.lock().unwrap();
                        s.last_case.is_some() && s.last_beat.elapsed() > Duration::from_secs(stall)
                    };
                    if stalled {
                        let _ = child.kill();
                        let _ = child.wait();
                        break Some(Death::Stalled(stall));
                    }
                    std::thread::sleep(Duration::from_millis(50));
                };
                let _ = reader.join();
                let s = shared.lock().unwrap();
                match death {
                    None => {
                        stats = s.stats.as_ref().and_then(Stats::from_json);
                        if stats.is_none() {
                            deaths.push((Death::Exit(0), "<worker exited 0 without stats>".into()));
                        }
                        break;
                    }
                    Some(d) => {
                        let (idx, desc) = s
                            .last_case
                            .clone()
                            .unwrap_or((u64::MAX, "<before first case>".into()));
                        deaths.push((d, desc));
                        if idx == u64::MAX || skip.len() >= max_resumes {
                            break;
                        }
                        skip.push(idx);
                    }
                }
            }
            results.lock().unwrap().push((shard, stats, deaths));
        }));
    }
    for h in handles {
        let _ = h.join();
    }
    let mut res = PoolResult {
        stats: Stats::new(),
        deaths: vec![],
    };
    let mut v = std::mem::take(&mut *results.lock().unwrap());
    v.sort_by_key(|x| x.0);
    for (shard, stats, deaths) in v {
        match stats {
            Some(s) => res.stats.merge(s),
            None => res
                .stats
                .failures
                .push(format!("shard {shard} produced no statistics")),
        }
        for (d, c) in deaths {
            res.deaths.push((shard, d, c));
        }
    }
    res
}

pub fn death_json(shard: usize, d: &Death, case: &str) -> Value {
    json!({"shard": shard, "death": format!("{d:?}"), "case": case})
}
