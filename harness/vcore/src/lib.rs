//! Shared machinery of the pest verification harness: mergeable run statistics,
//! a process-level worker pool with a watchdog, known-findings handling, and the
//! evidence / replay / verdict writer. See /verif/DESIGN.md §2.
pub mod pool;
pub mod stats;
pub mod verdict;

pub use serde_json::{json, Map, Value};
pub use stats::Stats;

use std::time::Instant;

/// Command-line / environment configuration common to every harness binary.
#[derive(Clone, Debug)]
pub struct Cfg {
    pub tier: Tier,
    pub seed: i64,
    pub replay: Option<String>,
    pub jobs: usize,
    pub extra: Vec<String>,
    pub t0: Instant,
}

#[derive(Clone, Copy, Debug, PartialEq, Eq)]
pub enum Tier {
    Quick,
    Thorough,
}

impl Tier {
    pub fn name(self) -> &'static str {
        match self {
            Tier::Quick => "quick",
            Tier::Thorough => "thorough",
        }
    }
}

impl Cfg {
    pub fn from_env() -> Cfg {
        let mut tier = match std::env::var("VERIF_TIER").ok().as_deref() {
            Some("thorough") => Tier::Thorough,
            _ => Tier::Quick,
        };
        let seed = std::env::var("VERIF_SEED")
            .ok()
            .and_then(|s| s.parse::<i64>().ok())
            .unwrap_or(0);
        let mut replay = None;
        let mut extra = vec![];
        let mut jobs = std::env::var("VERIF_JOBS")
            .ok()
            .and_then(|s| s.parse().ok())
            .unwrap_or_else(|| {
                std::thread::available_parallelism()
                    .map(|n| n.get())
                    .unwrap_or(4)
                    .min(16)
            });
        let mut it = std::env::args().skip(1);
        while let Some(a) = it.next() {
            match a.as_str() {
                "--tier" => {
                    tier = match it.next().as_deref() {
                        Some("thorough") => Tier::Thorough,
                        Some("quick") => Tier::Quick,
                        o => {
                            eprintln!("bad --tier {o:?}");
                            std::process::exit(2)
                        }
                    }
                }
                "--replay" => replay = it.next(),
                "--jobs" => jobs = it.next().and_then(|s| s.parse().ok()).unwrap_or(jobs),
                _ => extra.push(a),
            }
        }
        Cfg {
            tier,
            seed,
            replay,
            jobs: jobs.max(1),
            extra,
            t0: Instant::now(),
        }
    }
    pub fn quick(&self) -> bool {
        self.tier == Tier::Quick
    }
    pub fn has(&self, flag: &str) -> bool {
        self.extra.iter().any(|a| a == flag)
    }
    pub fn opt(&self, key: &str) -> Option<String> {
        let p = format!("{key}=");
        self.extra
            .iter()
            .find_map(|a| a.strip_prefix(&p).map(|s| s.to_string()))
    }
}

/// Root of the verification tree (evidence, replay and known-findings live here).
pub fn verif_root() -> std::path::PathBuf {
    std::env::var("VERIF_ROOT")
        .map(Into::into)
        .unwrap_or_else(|_| "/verif".into())
}

/// Silence panic messages of the code under test (we catch and classify them).
pub fn quiet_panics() {
    std::panic::set_hook(Box::new(|_| {}));
}

/// Run `f`, catching a panic and returning its message.
pub fn catch<T>(f: impl FnOnce() -> T) -> Result<T, String> {
    std::panic::catch_unwind(std::panic::AssertUnwindSafe(f)).map_err(|e| {
        if let Some(s) = e.downcast_ref::<&str>() {
            s.to_string()
        } else if let Some(s) = e.downcast_ref::<String>() {
            s.clone()
        } else {
            "<non-string panic>".to_string()
        }
    })
}

/// 64-bit FNV-1a, used where a stable (seed-free) hash is wanted.
pub fn fnv64(bytes: &[u8]) -> u64 {
    let mut h: u64 = 0xcbf29ce484222325;
    for b in bytes {
        h ^= *b as u64;
        h = h.wrapping_mul(0x100000001b3);
    }
    h
}

/// 128-bit hash made from two independent FNV-style passes (state-set keys).
pub fn hash128(bytes: &[u8]) -> u128 {
    let a = fnv64(bytes);
    let mut h: u64 = 0x9e3779b97f4a7c15;
    for b in bytes {
        h = (h ^ (*b as u64)).wrapping_mul(0xff51afd7ed558ccd);
        h ^= h >> 29;
    }
    ((a as u128) << 64) | h as u128
}

/// All strings of length 0..=max_len over `alpha`, shortest first, alphabet order.
pub fn strings_upto(alpha: &[char], max_len: usize) -> Vec<String> {
    let mut out = vec![String::new()];
    let mut cur = vec![String::new()];
    for _ in 0..max_len {
        let mut nx = Vec::with_capacity(cur.len() * alpha.len());
        for s in &cur {
            for c in alpha {
                let mut t = s.clone();
                t.push(*c);
                nx.push(t);
            }
        }
        out.extend(nx.iter().cloned());
        cur = nx;
    }
    out
}
