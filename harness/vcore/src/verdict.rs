//! Known findings, replay files, evidence file and exit status.
use crate::stats::Stats;
use crate::{verif_root, Cfg};
use serde_json::{json, Map, Value};
use std::collections::BTreeMap;

/// One entry of /verif/known_findings.json.
#[derive(Clone, Debug)]
pub struct Finding {
    pub id: String,
    pub property: String,
    pub status: String,
    pub pred: String,
    pub what: String,
}

/// The committed list of known findings, read-only at run time.
#[derive(Clone, Debug, Default)]
pub struct Known {
    pub entries: Vec<Finding>,
}

impl Known {
    pub fn load() -> Known {
        let p = verif_root().join("known_findings.json");
        let Ok(txt) = std::fs::read_to_string(&p) else {
            return Known::default();
        };
        let v: Value = serde_json::from_str(&txt).unwrap_or_else(|e| {
            eprintln!("machinery: cannot parse {}: {e}", p.display());
            std::process::exit(2)
        });
        let mut k = Known::default();
        for e in v.get("findings").and_then(|x| x.as_array()).cloned().unwrap_or_default() {
            let g = |f: &str| e.get(f).and_then(|x| x.as_str()).unwrap_or("").to_string();
            k.entries.push(Finding {
                id: g("id"),
                property: g("property"),
                status: g("status"),
                pred: g("pred"),
                what: g("what"),
            });
        }
        k
    }
    /// Is there an *open* entry for `property` whose predicate is `pred`?
    pub fn open(&self, property: &str, pred: &str) -> bool {
        self.entries
            .iter()
            .any(|e| e.property == property && e.pred == pred && e.status == "open")
    }
    /// First open predicate (in `preds` order) listed for this property.
    pub fn first_open<'a>(&self, property: &str, preds: &'a [String]) -> Option<&'a str> {
        preds
            .iter()
            .find(|p| self.open(property, p))
            .map(|s| s.as_str())
    }
    pub fn entry(&self, property: &str, pred: &str) -> Option<&Finding> {
        self.entries
            .iter()
            .find(|e| e.property == property && e.pred == pred && e.status == "open")
    }
}

pub struct Report<'a> {
    pub property: &'a str,
    /// one of the EVIDENCE.schema.json level names
    pub level: &'a str,
    pub cfg: &'a Cfg,
    pub stats: Stats,
    /// harness-specific coverage keys; counts are filled in from `stats` when absent
    pub coverage: Map<String, Value>,
    pub assumptions: Vec<String>,
}

fn short(v: &Value, n: usize) -> String {
    let s = v.to_string();
    if s.chars().count() > n {
        let t: String = s.chars().take(n).collect();
        format!("{t}…")
    } else {
        s
    }
}

/// Write replay files and the evidence file, print KNOWN-FINDING / VIOLATION lines,
/// exit 0 (held), 1 (violation) or 2 (machinery failure).
pub fn conclude(r: Report<'_>) -> ! {
    let root = verif_root();
    let known = Known::load();
    let Report {
        property,
        level,
        cfg,
        stats,
        mut coverage,
        assumptions,
    } = r;

    // known findings
    for (pred, (n, ex)) in &stats.known {
        let (id, what) = known
            .entry(property, pred)
            .map(|e| (e.id.clone(), e.what.clone()))
            .unwrap_or((pred.clone(), String::new()));
        println!(
            "KNOWN-FINDING: property={property} {id}: {what} [{n} case(s) this run, e.g. {}]",
            short(ex, 300)
        );
    }

    // violations -> replay files
    let nviol = stats.get("violations");
    let rdir = root.join("replay").join(property);
    let _ = std::fs::remove_dir_all(&rdir);
    if !stats.violations.is_empty() {
        let _ = std::fs::create_dir_all(&rdir);
    }
    for (i, v) in stats.violations.iter().enumerate() {
        let p = rdir.join(format!("{i}.json"));
        let body = json!({"property": property, "tier": cfg.tier.name(), "case": v});
        let _ = std::fs::write(&p, serde_json::to_string_pretty(&body).unwrap());
        println!("VIOLATION property={property} replay={}", p.display());
        println!("  detail: {}", short(v, 600));
    }
    if nviol as usize > stats.violations.len() {
        println!(
            "  ({} further violations not written out)",
            nviol as usize - stats.violations.len()
        );
    }
    for f in &stats.failures {
        println!("MACHINERY-FAILURE property={property}: {f}");
    }

    // evidence
    let wall = cfg.t0.elapsed().as_secs_f64();
    let mut cov = Map::new();
    cov.insert("evaluations".into(), json!(stats.get("evaluations")));
    cov.insert("distinct_nontrivial".into(), json!(stats.get("distinct_nontrivial")));
    // a run that was cut short (workers died before reporting) still writes well-formed evidence
    let samples: Vec<Value> = if stats.samples.is_empty() {
        stats.violations.iter().take(2).cloned().chain(std::iter::once(json!({"note": "no case completed normally in this run"}))).take(2).collect()
    } else {
        stats.samples.clone()
    };
    cov.insert("samples".into(), json!(samples));
    cov.insert("distinct_outcomes".into(), json!(stats.outcomes.len()));
    cov.insert(
        "outcome_classes".into(),
        json!(stats.outcomes.iter().take(64).collect::<Vec<_>>()),
    );
    cov.insert("counts".into(), json!(stats.counts));
    cov.insert("bounds_reached".into(), json!(stats.maxima));
    cov.insert("caps_hit".into(), json!(stats.caps_hit));
    cov.insert(
        "known_findings_absorbed".into(),
        json!(stats
            .known
            .iter()
            .map(|(k, (n, _))| (k.clone(), *n))
            .collect::<BTreeMap<_, _>>()),
    );
    if !coverage.contains_key("exhaustive") {
        cov.insert("exhaustive".into(), json!(stats.caps_hit.is_empty() && stats.failures.is_empty()));
    }
    for (k, v) in std::mem::take(&mut coverage) {
        cov.insert(k, v);
    }
    let ev = json!({
        "property_id": property,
        "tier": cfg.tier.name(),
        "seed": cfg.seed,
        "level": level,
        "coverage": cov,
        "assumptions": assumptions,
        "wall_s": (wall * 1000.0).round() / 1000.0,
        "violations": nviol,
    });
    let edir = root.join("evidence");
    let _ = std::fs::create_dir_all(&edir);
    let path = edir.join(format!("{property}.json"));
    if let Err(e) = std::fs::write(&path, serde_json::to_string_pretty(&ev).unwrap() + "\n") {
        println!("MACHINERY-FAILURE property={property}: cannot write {}: {e}", path.display());
        std::process::exit(2);
    }
    println!(
        "{property} [{}] evaluations={} distinct_nontrivial={} outcomes={} known={} violations={} wall={:.1}s",
        cfg.tier.name(),
        stats.get("evaluations"),
        stats.get("distinct_nontrivial"),
        stats.outcomes.len(),
        stats.known.values().map(|x| x.0).sum::<u64>(),
        nviol,
        wall
    );
    if nviol > 0 {
        std::process::exit(1)
    }
    if !stats.failures.is_empty() {
        std::process::exit(2)
    }
    std::process::exit(0)
}

/// Load the `case` object of a replay file.
pub fn load_replay(path: &str) -> Value {
    let txt = std::fs::read_to_string(path).unwrap_or_else(|e| {
        eprintln!("cannot read replay file {path}: {e}");
        std::process::exit(2)
    });
    let v: Value = serde_json::from_str(&txt).unwrap_or_else(|e| {
        eprintln!("cannot parse replay file {path}: {e}");
        std::process::exit(2)
    });
    v.get("case").cloned().unwrap_or(v)
}
