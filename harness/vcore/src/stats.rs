//! Mergeable statistics gathered by one explorer (or one shard of it).
use serde_json::{json, Map, Value};
use std::collections::{BTreeMap, BTreeSet};

pub const MAX_SAMPLES: usize = 6;
pub const MAX_VIOLATIONS: usize = 40;
pub const MAX_OUTCOMES: usize = 4096;

#[derive(Default, Debug, Clone)]
pub struct Stats {
    /// named counters (evaluations, nontrivial, excluded.<reason>, ...)
    pub counts: BTreeMap<String, u64>,
    /// named maxima (largest bound completed, deepest level, ...)
    pub maxima: BTreeMap<String, u64>,
    /// distinct outcome classes observed (small strings) — vacuity control
    pub outcomes: BTreeSet<String>,
    /// first few cases, written out
    pub samples: Vec<Value>,
    /// unexplained violations (each a replayable case description); capped, total in counts["violations"]
    pub violations: Vec<Value>,
    /// predicate name -> (cases absorbed, first example)
    pub known: BTreeMap<String, (u64, Value)>,
    /// caps that were hit (if empty the enumeration was exhaustive within its bounds)
    pub caps_hit: BTreeSet<String>,
    /// machinery failures (never verdicts)
    pub failures: Vec<String>,
}

impl Stats {
    pub fn new() -> Stats {
        Stats::default()
    }
    pub fn inc(&mut self, k: &str) {
        self.add(k, 1)
    }
    pub fn add(&mut self, k: &str, n: u64) {
        if let Some(c) = self.counts.get_mut(k) {
            *c += n;
        } else {
            self.counts.insert(k.to_string(), n);
        }
    }
    pub fn get(&self, k: &str) -> u64 {
        self.counts.get(k).copied().unwrap_or(0)
    }
    pub fn max(&mut self, k: &str, v: u64) {
        let e = self.maxima.entry(k.to_string()).or_insert(0);
        if v > *e {
            *e = v;
        }
    }
    pub fn outcome(&mut self, o: &str) {
        if self.outcomes.len() < MAX_OUTCOMES && !self.outcomes.contains(o) {
            self.outcomes.insert(o.to_string());
        }
    }
    pub fn sample(&mut self, v: impl FnOnce() -> Value) {
        if self.samples.len() < MAX_SAMPLES {
            self.samples.push(v());
        }
    }
    /// Record an unexplained violation.
    pub fn violation(&mut self, v: Value) {
        self.inc("violations");
        if self.violations.len() < MAX_VIOLATIONS {
            self.violations.push(v);
        }
    }
    /// Record an unexplained violation of a named class; at most 3 per class are written out.
    pub fn violation_class(&mut self, class: &str, v: Value) {
        self.inc("violations");
        let k = format!("violations.{class}");
        self.inc(&k);
        if self.get(&k) <= 3 && self.violations.len() < MAX_VIOLATIONS {
            let mut v = v;
            if let Some(o) = v.as_object_mut() {
                o.insert("_class".into(), Value::String(class.to_string()));
            }
            self.violations.push(v);
        }
    }
    /// Record a case absorbed by a known-finding predicate.
    pub fn known(&mut self, pred: &str, example: impl FnOnce() -> Value) {
        match self.known.get_mut(pred) {
            Some(e) => e.0 += 1,
            None => {
                self.known.insert(pred.to_string(), (1, example()));
            }
        }
    }
    pub fn cap(&mut self, c: &str) {
        self.caps_hit.insert(c.to_string());
    }
    pub fn merge(&mut self, o: Stats) {
        for (k, v) in o.counts {
            self.add(&k, v);
        }
        for (k, v) in o.maxima {
            self.max(&k, v);
        }
        for s in o.outcomes {
            self.outcome(&s);
        }
        for s in o.samples {
            if self.samples.len() < MAX_SAMPLES {
                self.samples.push(s);
            }
        }
        for v in o.violations {
            // keep at most 3 written-out cases per violation class over all shards
            let class = v.get("_class").and_then(|c| c.as_str()).map(|s| s.to_string());
            let same = match &class {
                Some(c) => self.violations.iter().filter(|x| x.get("_class").and_then(|y| y.as_str()) == Some(c)).count(),
                None => 0,
            };
            if same < 3 && self.violations.len() < MAX_VIOLATIONS {
                self.violations.push(v);
            }
        }
        for (k, (n, ex)) in o.known {
            match self.known.get_mut(&k) {
                Some(e) => e.0 += n,
                None => {
                    self.known.insert(k, (n, ex));
                }
            }
        }
        self.caps_hit.extend(o.caps_hit);
        self.failures.extend(o.failures);
    }
    pub fn to_json(&self) -> Value {
        json!({
            "counts": self.counts,
            "maxima": self.maxima,
            "outcomes": self.outcomes,
            "samples": self.samples,
            "violations": self.violations,
            "known": self.known.iter().map(|(k,(n,e))| (k.clone(), json!([n, e]))).collect::<Map<String,Value>>(),
            "caps_hit": self.caps_hit,
            "failures": self.failures,
        })
    }
    pub fn from_json(v: &Value) -> Option<Stats> {
        let mut s = Stats::new();
        for (k, n) in v.get("counts")?.as_object()? {
            s.counts.insert(k.clone(), n.as_u64()?);
        }
        for (k, n) in v.get("maxima")?.as_object()? {
            s.maxima.insert(k.clone(), n.as_u64()?);
        }
        for o in v.get("outcomes")?.as_array()? {
            s.outcomes.insert(o.as_str()?.to_string());
        }
        s.samples = v.get("samples")?.as_array()?.clone();
        s.violations = v.get("violations")?.as_array()?.clone();
        for (k, e) in v.get("known")?.as_object()? {
            let a = e.as_array()?;
            s.known.insert(k.clone(), (a[0].as_u64()?, a[1].clone()));
        }
        for o in v.get("caps_hit")?.as_array()? {
            s.caps_hit.insert(o.as_str()?.to_string());
        }
        for o in v.get("failures")?.as_array()? {
            s.failures.push(o.as_str()?.to_string());
        }
        Some(s)
    }
}
