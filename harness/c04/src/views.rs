//! Every way of observing a `Pairs` must agree with one plain tree (C04).
//! `check_views(forest, pairs, input, ..)` compares all views of `pairs` with `forest`;
//! `forest_from_tokens` derives the tree from a token stream while checking the stream
//! invariants (balanced, properly nested, matching rules, non-decreasing boundary positions).
use pest::iterators::{Pair, Pairs};
use pest::{RuleType, Token};

#[derive(Clone, Debug, PartialEq, Eq)]
pub struct Node {
    pub rule: String,
    pub start: usize,
    pub end: usize,
    pub tag: Option<String>,
    pub children: Vec<Node>,
}

pub type Problems = Vec<String>;

pub fn preorder<'a>(f: &'a [Node], out: &mut Vec<&'a Node>) {
    for n in f {
        out.push(n);
        preorder(&n.children, out);
    }
}

/// (is_start, rule, pos) for the whole forest.
pub fn flat_tokens(f: &[Node], out: &mut Vec<(bool, String, usize)>) {
    for n in f {
        out.push((true, n.rule.clone(), n.start));
        flat_tokens(&n.children, out);
        out.push((false, n.rule.clone(), n.end));
    }
}

pub fn tok<R: RuleType>(t: &Token<'_, R>) -> (bool, String, usize) {
    match t {
        Token::Start { rule, pos } => (true, format!("{rule:?}"), pos.pos()),
        Token::End { rule, pos } => (false, format!("{rule:?}"), pos.pos()),
    }
}

/// Build the forest a token stream denotes, checking the stream invariants.
pub fn forest_from_tokens(toks: &[(bool, String, usize)], input: &str, problems: &mut Problems) -> Option<Vec<Node>> {
    let mut stack: Vec<Node> = vec![];
    let mut roots: Vec<Node> = vec![];
    let mut last = 0usize;
    for (i, (start, rule, pos)) in toks.iter().enumerate() {
        if *pos < last {
            problems.push(format!("token {i}: position {pos} decreases (previous {last})"));
            return None;
        }
        last = *pos;
        if *pos > input.len() || !input.is_char_boundary(*pos) {
            problems.push(format!("token {i}: position {pos} is not a UTF-8 boundary inside the input"));
            return None;
        }
        if *start {
            stack.push(Node { rule: rule.clone(), start: *pos, end: 0, tag: None, children: vec![] });
        } else {
            let Some(mut n) = stack.pop() else {
                problems.push(format!("token {i}: End without Start"));
                return None;
            };
            if n.rule != *rule {
                problems.push(format!("token {i}: End({rule}) closes Start({})", n.rule));
                return None;
            }
            n.end = *pos;
            match stack.last_mut() {
                Some(p) => p.children.push(n),
                None => roots.push(n),
            }
        }
    }
    if !stack.is_empty() {
        problems.push("unbalanced: Start without End".into());
        return None;
    }
    Some(roots)
}

fn ref_line_col(s: &str, o: usize) -> (usize, usize) {
    let before = &s[..o];
    let line = 1 + before.matches('\n').count();
    let last = before.rfind('\n').map(|i| i + 1).unwrap_or(0);
    (line, 1 + before[last..].chars().count())
}

fn dbg_pair(n: &Node, input: &str) -> String {
    let tag = n.tag.as_ref().map(|t| format!("node_tag: {t:?}, ")).unwrap_or_default();
    format!(
        "Pair {{ rule: {}, {tag}span: Span {{ str: {:?}, range: {}..{} }}, inner: [{}] }}",
        n.rule,
        &input[n.start..n.end],
        n.start,
        n.end,
        n.children.iter().map(|c| dbg_pair(c, input)).collect::<Vec<_>>().join(", ")
    )
}

fn alt_pair(n: &Node) -> String {
    if n.children.is_empty() {
        format!("{}({}, {})", n.rule, n.start, n.end)
    } else {
        format!("{}({}, {}, [{}])", n.rule, n.start, n.end, n.children.iter().map(alt_pair).collect::<Vec<_>>().join(", "))
    }
}

fn json_pair(n: &Node, input: &str) -> serde_json::Value {
    // the rule is serialised as format!("{:?}", rule)
    let inner = if n.children.is_empty() { serde_json::Value::String(input[n.start..n.end].to_string()) } else { json_pairs(&n.children, input) };
    serde_json::json!({"pos": [n.start, n.end], "rule": n.rule, "inner": inner})
}
fn json_pairs(f: &[Node], input: &str) -> serde_json::Value {
    serde_json::json!({"pos": [f.first().map(|n| n.start).unwrap_or(0), f.last().map(|n| n.end).unwrap_or(0)], "pairs": f.iter().map(|n| json_pair(n, input)).collect::<Vec<_>>()})
}

pub struct Opts {
    /// check all 2^k interleavings of next/next_back up to this many items (beyond: the three
    /// canonical orders forward, backward, alternating)
    pub interleave_upto: usize,
    pub check_json: bool,
    /// count of observations made (for evidence)
    pub observations: u64,
    pub transitions: u64,
}

fn orders(k: usize, upto: usize) -> Vec<Vec<bool>> {
    // true = take from the front
    if k <= upto {
        (0..(1u32 << k)).map(|m| (0..k).map(|i| m >> i & 1 == 1).collect()).collect()
    } else {
        vec![vec![true; k], vec![false; k], (0..k).map(|i| i % 2 == 0).collect(), (0..k).map(|i| i % 2 == 1).collect()]
    }
}

fn catchp<T>(what: &str, problems: &mut Problems, f: impl FnOnce() -> T) -> Option<T> {
    match std::panic::catch_unwind(std::panic::AssertUnwindSafe(f)) {
        Ok(v) => Some(v),
        Err(e) => {
            let m = e.downcast_ref::<&str>().map(|s| s.to_string()).or_else(|| e.downcast_ref::<String>().cloned()).unwrap_or_default();
            problems.push(format!("{what} panicked: {m}"));
            None
        }
    }
}

fn check_pair<R: RuleType>(n: &Node, p: &Pair<'_, R>, input: &str, o: &mut Opts, problems: &mut Problems, depth: usize, via: &str) {
    o.observations += 1;
    let got = catchp(&format!("{via}: Pair accessors"), problems, || {
        (
            format!("{:?}", p.as_rule()),
            p.as_str().to_string(),
            (p.as_span().start(), p.as_span().end()),
            p.as_node_tag().map(|s| s.to_string()),
            p.line_col(),
            format!("{p}"),
            format!("{p:#}"),
            format!("{p:?}"),
            p.get_input().len(),
        )
    });
    let Some((rule, s, span, tag, lc, disp, alt, dbg, ilen)) = got else { return };
    if rule != n.rule {
        problems.push(format!("{via}: as_rule {rule} expected {}", n.rule));
    }
    if s != input[n.start..n.end] || span != (n.start, n.end) {
        problems.push(format!("{via}: as_str {s:?} / as_span {span:?}, expected {:?} / ({}, {})", &input[n.start..n.end], n.start, n.end));
    }
    if tag != n.tag {
        problems.push(format!("{via}: as_node_tag {tag:?}, expected {:?}", n.tag));
    }
    if lc != ref_line_col(input, n.start) {
        problems.push(format!("{via}: line_col {lc:?}, expected {:?}", ref_line_col(input, n.start)));
    }
    if disp != input[n.start..n.end] || alt != alt_pair(n) {
        problems.push(format!("{via}: Display {disp:?} / {{:#}} {alt:?}, expected {:?} / {:?}", &input[n.start..n.end], alt_pair(n)));
    }
    if dbg != dbg_pair(n, input) {
        problems.push(format!("{via}: Debug {dbg:?}, expected {:?}", dbg_pair(n, input)));
    }
    if ilen != input.len() {
        problems.push(format!("{via}: get_input has length {ilen}"));
    }
    // tokens of this pair
    if let Some(t) = catchp(&format!("{via}: Pair::tokens"), problems, || p.clone().tokens().map(|t| tok(&t)).collect::<Vec<_>>()) {
        let mut want = vec![];
        flat_tokens(std::slice::from_ref(n), &mut want);
        if t != want {
            problems.push(format!("{via}: Pair::tokens {t:?}, expected {want:?}"));
        }
    }
    if o.check_json {
        if let Some(j) = catchp(&format!("{via}: Pair::to_json"), problems, || p.to_json()) {
            match serde_json::from_str::<serde_json::Value>(&j) {
                Ok(v) if v == json_pair(n, input) => {}
                Ok(v) => problems.push(format!("{via}: Pair::to_json {v}, expected {}", json_pair(n, input))),
                Err(e) => problems.push(format!("{via}: Pair::to_json is not JSON: {e}")),
            }
        }
    }
    if depth > 0 {
        // into_inner: the children, recursively, as a Pairs of its own
        if let Some(inner) = catchp(&format!("{via}: into_inner"), problems, || p.clone().into_inner()) {
            check_pairs(&n.children, &inner, input, o, problems, depth - 1, &format!("{via}.into_inner()"));
        }
        // Pairs::single(pair): a Pairs of exactly this pair
        if let Some(single) = catchp(&format!("{via}: Pairs::single"), problems, || Pairs::single(p.clone())) {
            check_pairs(std::slice::from_ref(n), &single, input, o, problems, 0, &format!("Pairs::single({via})"));
        }
    }
}

/// All views of `p` against the forest `f`.
pub fn check_pairs<R: RuleType>(f: &[Node], p: &Pairs<'_, R>, input: &str, o: &mut Opts, problems: &mut Problems, depth: usize, via: &str) {
    let k = f.len();
    // ---- static observations
    let got = catchp(&format!("{via}: Pairs accessors"), problems, || {
        (p.len(), p.size_hint(), p.is_empty(), p.as_str().to_string(), p.concat(), format!("{p}"), format!("{p:#}"), format!("{p:?}"), p.peek().map(|q| q.as_span().start()), p.get_input().len())
    });
    o.observations += 1;
    if let Some((len, sh, empty, s, concat, disp, alt, dbg, peek, ilen)) = got {
        if len != k || sh != (k, Some(k)) || empty != (k == 0) {
            problems.push(format!("{via}: len {len} size_hint {sh:?} is_empty {empty}, expected {k} pairs"));
        }
        let want_str = if k == 0 { "" } else { &input[f[0].start..f[k - 1].end] };
        if s != want_str {
            problems.push(format!("{via}: Pairs::as_str {s:?}, expected {want_str:?}"));
        }
        let want_concat: String = f.iter().map(|n| &input[n.start..n.end]).collect();
        if concat != want_concat {
            problems.push(format!("{via}: concat {concat:?}, expected {want_concat:?}"));
        }
        let wd = format!("[{}]", f.iter().map(|n| input[n.start..n.end].to_string()).collect::<Vec<_>>().join(", "));
        let wa = format!("[{}]", f.iter().map(alt_pair).collect::<Vec<_>>().join(", "));
        let wdbg = format!("[{}]", f.iter().map(|n| dbg_pair(n, input)).collect::<Vec<_>>().join(", "));
        if disp != wd || alt != wa || dbg != wdbg {
            problems.push(format!("{via}: Display {disp:?} / {alt:?} / Debug {dbg:?}, expected {wd:?} / {wa:?} / {wdbg:?}"));
        }
        if peek != f.first().map(|n| n.start) {
            problems.push(format!("{via}: peek start {peek:?}"));
        }
        if ilen != input.len() {
            problems.push(format!("{via}: get_input length {ilen}"));
        }
    }
    if o.check_json {
        if let Some(j) = catchp(&format!("{via}: Pairs::to_json"), problems, || p.to_json()) {
            match serde_json::from_str::<serde_json::Value>(&j) {
                Ok(v) => {
                    // for an empty window only the (empty) list of pairs is defined
                    let want = json_pairs(f, input);
                    if (k > 0 && v != want) || (k == 0 && v.get("pairs") != want.get("pairs")) {
                        problems.push(format!("{via}: Pairs::to_json {v}, expected {want}"));
                    }
                }
                Err(e) => problems.push(format!("{via}: Pairs::to_json is not JSON: {e}")),
            }
        }
    }
    // ---- iteration of the top-level pairs in every interleaving
    for (oi, order) in orders(k, o.interleave_upto).iter().enumerate() {
        let mut it = p.clone();
        let (mut lo, mut hi) = (0usize, k);
        let r = catchp(&format!("{via}: iterating Pairs in order #{oi}"), problems, || {
            let mut errs: Vec<String> = vec![];
            for front in order.iter() {
                let item = if *front { it.next() } else { it.next_back() };
                o.transitions += 1;
                let want = if *front {
                    lo += 1;
                    &f[lo - 1]
                } else {
                    hi -= 1;
                    &f[hi]
                };
                match item {
                    None => errs.push(format!("{} returned None with {} pairs left", if *front { "next" } else { "next_back" }, hi + 1 - lo)),
                    Some(q) => {
                        if (q.as_span().start(), q.as_span().end(), format!("{:?}", q.as_rule())) != (want.start, want.end, want.rule.clone()) {
                            errs.push(format!("{} yielded {:?}({}, {}), expected {}({}, {})", if *front { "next" } else { "next_back" }, q.as_rule(), q.as_span().start(), q.as_span().end(), want.rule, want.start, want.end));
                        } else if oi == 0 || oi + 1 == 1usize << k.min(20) {
                            // full check of the yielded pair once from each end
                            let mut ps = vec![];
                            check_pair(want, &q, input, o, &mut ps, depth, &format!("{via}[{}]", if *front { lo - 1 } else { hi }));
                            errs.extend(ps);
                        }
                    }
                }
                let left = hi - lo;
                if it.len() != left || it.size_hint() != (left, Some(left)) || it.is_empty() != (left == 0) {
                    errs.push(format!("after {} steps len {} size_hint {:?}, {} pairs left", lo + k - hi, it.len(), it.size_hint(), left));
                }
                let pk = it.peek().map(|q| q.as_span().start());
                if pk != if left > 0 { Some(f[lo].start) } else { None } {
                    errs.push(format!("peek after {} steps gives {pk:?}", lo + k - hi));
                }
            }
            // each end is probed on its own copy: probing one end must not be what "repairs" the other
            if it.clone().next_back().is_some() || it.clone().next().is_some() || it.next().is_some() || it.next_back().is_some() {
                errs.push("exhausted Pairs still yields".into());
            }
            errs
        });
        if let Some(errs) = r {
            for e in errs.into_iter().take(3) {
                problems.push(format!("{via}: order {:?}: {e}", order.iter().map(|b| if *b { 'f' } else { 'b' }).collect::<String>()));
            }
        }
        if problems.len() > 12 {
            return;
        }
    }
    // ---- flatten: preorder, every interleaving
    let mut pre = vec![];
    preorder(f, &mut pre);
    for order in orders(pre.len(), o.interleave_upto) {
        let r = catchp(&format!("{via}: iterating flatten()"), problems, || {
            let mut errs: Vec<String> = vec![];
            let mut it = p.clone().flatten();
            let (mut lo, mut hi) = (0usize, pre.len());
            if it.len() != pre.len() {
                errs.push(format!("flatten().len() {} for {} pairs", it.len(), pre.len()));
            }
            for front in order.iter() {
                let item = if *front { it.next() } else { it.next_back() };
                o.transitions += 1;
                let want = if *front {
                    lo += 1;
                    pre[lo - 1]
                } else {
                    hi -= 1;
                    pre[hi]
                };
                match item {
                    None => errs.push(format!("flatten {} returned None with {} left", if *front { "next" } else { "next_back" }, hi + 1 - lo)),
                    Some(q) => {
                        if (q.as_span().start(), q.as_span().end(), format!("{:?}", q.as_rule()), q.as_node_tag().map(|s| s.to_string())) != (want.start, want.end, want.rule.clone(), want.tag.clone()) {
                            errs.push(format!("flatten yielded {:?}({}, {}) tag {:?}, expected {}({}, {}) tag {:?}", q.as_rule(), q.as_span().start(), q.as_span().end(), q.as_node_tag(), want.rule, want.start, want.end, want.tag));
                        }
                    }
                }
                let left = hi - lo;
                if it.len() != left || it.size_hint() != (left, Some(left)) {
                    errs.push(format!("flatten: after {} steps len {} size_hint {:?}, {} pairs left", lo + pre.len() - hi, it.len(), it.size_hint(), left));
                }
            }
            if it.clone().next_back().is_some() || it.clone().next().is_some() || it.next().is_some() || it.next_back().is_some() {
                errs.push("exhausted FlatPairs still yields".into());
            }
            errs
        });
        if let Some(errs) = r {
            for e in errs.into_iter().take(3) {
                problems.push(format!("{via}: flatten order {:?}: {e}", order.iter().map(|b| if *b { 'f' } else { 'b' }).collect::<String>()));
            }
        }
        if problems.len() > 12 {
            return;
        }
    }
    // FlatPairs::tokens and Debug
    if let Some((t, d)) = catchp(&format!("{via}: flatten().tokens()"), problems, || (p.clone().flatten().tokens().map(|t| tok(&t)).collect::<Vec<_>>(), format!("{:?}", p.clone().flatten()))) {
        let mut want = vec![];
        flat_tokens(f, &mut want);
        if t != want {
            problems.push(format!("{via}: flatten().tokens() {t:?}, expected {want:?}"));
        }
        let wd = format!("FlatPairs {{ pairs: [{}] }}", pre.iter().map(|n| dbg_pair(n, input)).collect::<Vec<_>>().join(", "));
        if d != wd {
            problems.push(format!("{via}: FlatPairs Debug {d:?}, expected {wd:?}"));
        }
    }
    // ---- iterator adaptors on the three views
    {
        let keyp = |q: &pest::iterators::Pair<'_, R>| (q.as_span().start(), q.as_span().end(), format!("{:?}", q.as_rule()));
        let want_top: Vec<(usize, usize, String)> = f.iter().map(|n| (n.start, n.end, n.rule.clone())).collect();
        check_adaptors("Pairs", &|| p.clone(), &keyp, &want_top, problems, &mut o.transitions);
        let want_pre: Vec<(usize, usize, String)> = pre.iter().map(|n| (n.start, n.end, n.rule.clone())).collect();
        check_adaptors("FlatPairs", &|| p.clone().flatten(), &keyp, &want_pre, problems, &mut o.transitions);
        let mut wt = vec![];
        flat_tokens(f, &mut wt);
        check_adaptors("Tokens", &|| p.clone().tokens(), &|t: &pest::Token<'_, R>| tok(t), &wt, problems, &mut o.transitions);
    }
    // ---- tags
    for t in ["t", "u"] {
        if let Some((all, first)) = catchp(&format!("{via}: find_tagged"), problems, || (p.clone().find_tagged(t).map(|q| (q.as_span().start(), q.as_span().end(), format!("{:?}", q.as_rule()))).collect::<Vec<_>>(), p.find_first_tagged(t).map(|q| (q.as_span().start(), q.as_span().end(), format!("{:?}", q.as_rule()))))) {
            let want: Vec<_> = pre.iter().filter(|n| n.tag.as_deref() == Some(t)).map(|n| (n.start, n.end, n.rule.clone())).collect();
            if all != want || first != want.first().cloned() {
                problems.push(format!("{via}: find_tagged({t:?}) {all:?} / first {first:?}, expected {want:?}"));
            }
        }
    }
    // ---- tokens: every interleaving
    let mut want_toks = vec![];
    flat_tokens(f, &mut want_toks);
    for order in orders(want_toks.len(), o.interleave_upto.min(10)) {
        let r = catchp(&format!("{via}: iterating tokens()"), problems, || {
            let mut errs: Vec<String> = vec![];
            let mut it = p.clone().tokens();
            let (mut lo, mut hi) = (0usize, want_toks.len());
            for front in order.iter() {
                let item = if *front { it.next() } else { it.next_back() };
                o.transitions += 1;
                let want = if *front {
                    lo += 1;
                    &want_toks[lo - 1]
                } else {
                    hi -= 1;
                    &want_toks[hi]
                };
                match item {
                    None => errs.push("tokens: None too early".to_string()),
                    Some(t) => {
                        if tok(&t) != *want {
                            errs.push(format!("tokens yielded {:?}, expected {want:?}", tok(&t)));
                        }
                    }
                }
                if it.len() != hi - lo || it.size_hint() != (hi - lo, Some(hi - lo)) {
                    errs.push(format!("tokens: len {} with {} left", it.len(), hi - lo));
                }
            }
            if it.clone().next_back().is_some() || it.clone().next().is_some() || it.next().is_some() || it.next_back().is_some() {
                errs.push("exhausted Tokens still yields".into());
            }
            errs
        });
        if let Some(errs) = r {
            for e in errs.into_iter().take(2) {
                problems.push(format!("{via}: {e}"));
            }
        }
        if problems.len() > 12 {
            return;
        }
    }
    if let Some(d) = catchp(&format!("{via}: Tokens Debug"), problems, || format!("{:?}", p.clone().tokens())) {
        let wd = format!("[{}]", want_toks.iter().map(|(s, r, pos)| format!("{} {{ rule: {r}, pos: Position {{ pos: {pos} }} }}", if *s { "Start" } else { "End" })).collect::<Vec<_>>().join(", "));
        if d != wd {
            problems.push(format!("{via}: Tokens Debug {d:?}, expected {wd:?}"));
        }
    }
}


/// The std iterator adaptors that an implementation may override (`nth`, `nth_back`, `last`,
/// `count`, `rev`, `step_by`, `skip`, `fold`) are ways of observing the same list: checked from
/// every cursor state reachable by consuming up to two items at either end.
pub fn check_adaptors<I, T, K>(what: &str, make: &dyn Fn() -> I, key: &dyn Fn(&T) -> K, want: &[K], problems: &mut Vec<String>, transitions: &mut u64)
where
    I: Iterator<Item = T> + DoubleEndedIterator + ExactSizeIterator + Clone,
    K: PartialEq + std::fmt::Debug + Clone,
{
    let n = want.len();
    let r = std::panic::catch_unwind(std::panic::AssertUnwindSafe(|| {
        let mut errs: Vec<String> = vec![];
        for a in 0..=n.min(2) {
            for b in 0..=(n - a).min(2) {
                let mut base = make();
                for _ in 0..a {
                    base.next();
                }
                for _ in 0..b {
                    base.next_back();
                }
                let win = &want[a..n - b];
                let rem = win.len();
                let at = format!("{what} after {a} next / {b} next_back");
                for k in 0..=rem + 1 {
                    *transitions += 2;
                    let mut it = base.clone();
                    let got = it.nth(k).map(|x| key(&x));
                    let exp = win.get(k).cloned();
                    let left: Vec<K> = if k < rem { win[k + 1..].to_vec() } else { vec![] };
                    if got != exp {
                        errs.push(format!("{at}: nth({k}) = {got:?}, expected {exp:?}"));
                    } else if it.len() != left.len() || it.size_hint() != (left.len(), Some(left.len())) {
                        errs.push(format!("{at}: after nth({k}) len {} size_hint {:?}, {} left", it.len(), it.size_hint(), left.len()));
                    } else if it.map(|x| key(&x)).collect::<Vec<_>>() != left {
                        errs.push(format!("{at}: items after nth({k}) differ"));
                    }
                    let mut it = base.clone();
                    let got = it.nth_back(k).map(|x| key(&x));
                    let exp = if k < rem { Some(win[rem - 1 - k].clone()) } else { None };
                    let left: Vec<K> = if k < rem { win[..rem - 1 - k].to_vec() } else { vec![] };
                    if got != exp {
                        errs.push(format!("{at}: nth_back({k}) = {got:?}, expected {exp:?}"));
                    } else if it.len() != left.len() || it.size_hint() != (left.len(), Some(left.len())) {
                        errs.push(format!("{at}: after nth_back({k}) len {} size_hint {:?}, {} left", it.len(), it.size_hint(), left.len()));
                    } else if it.map(|x| key(&x)).collect::<Vec<_>>() != left {
                        errs.push(format!("{at}: items after nth_back({k}) differ"));
                    }
                    let got: Vec<K> = base.clone().skip(k).map(|x| key(&x)).collect();
                    if got != win[k.min(rem)..].to_vec() {
                        errs.push(format!("{at}: skip({k}) differs"));
                    }
                }
                *transitions += 6;
                let got = base.clone().last().map(|x| key(&x));
                if got != win.last().cloned() {
                    errs.push(format!("{at}: last() = {got:?}, expected {:?}", win.last()));
                }
                if base.clone().count() != rem {
                    errs.push(format!("{at}: count() = {}, expected {rem}", base.clone().count()));
                }
                let got: Vec<K> = base.clone().rev().map(|x| key(&x)).collect();
                let mut exp = win.to_vec();
                exp.reverse();
                if got != exp {
                    errs.push(format!("{at}: rev() differs"));
                }
                let got: Vec<K> = base.clone().step_by(2).map(|x| key(&x)).collect();
                if got != win.iter().step_by(2).cloned().collect::<Vec<_>>() {
                    errs.push(format!("{at}: step_by(2) differs"));
                }
                let got = base.clone().fold(0usize, |acc, _| acc + 1);
                if got != rem {
                    errs.push(format!("{at}: fold counts {got}, expected {rem}"));
                }
                let got: Vec<K> = base.clone().rev().skip(1).map(|x| key(&x)).collect();
                if got != exp.iter().skip(1).cloned().collect::<Vec<_>>() {
                    errs.push(format!("{at}: rev().skip(1) differs"));
                }
            }
        }
        errs
    }));
    match r {
        Ok(errs) => problems.extend(errs.into_iter().take(3)),
        Err(e) => problems.push(format!("{what}: an iterator adaptor panicked: {}", e.downcast_ref::<String>().cloned().or_else(|| e.downcast_ref::<&str>().map(|s| s.to_string())).unwrap_or_default())),
    }
}
