//! C04 — the token stream is a well-formed tree and every `Pairs` view agrees with it.
//! (b) every ordered forest up to N nodes x every consistent span assignment x tag placements,
//!     built through `PairsBuilder`, observed through every view and every interleaving of
//!     next/next_back (this binary, threads);
//! (a) the same observations plus the stream invariants on every successful parse of the shared
//!     grammar corpus (delegated to the `sdoc` explorer, `--prop=C04`, merged here).
mod views;

use pest::iterators::PairsBuilder;
use std::collections::HashSet;
use views::{check_pairs, Node, Opts};
use vcore::{json, verdict, Cfg, Stats, Value};

/// All ordered forests with exactly n nodes (shape only).
fn shapes(n: usize) -> Vec<Vec<Node>> {
    if n == 0 {
        return vec![vec![]];
    }
    let mut out = vec![];
    for k in 0..n {
        // first tree has k descendants, the rest of the forest n-1-k nodes
        for kids in shapes(k) {
            for rest in shapes(n - 1 - k) {
                let mut f = vec![Node { rule: String::new(), start: 0, end: 0, tag: None, children: kids.clone() }];
                f.extend(rest.clone());
                out.push(f);
            }
        }
    }
    out
}

/// Non-decreasing sequences of length `len` over `vals`.
fn nondecreasing(len: usize, vals: &[usize]) -> Vec<Vec<usize>> {
    fn rec(len: usize, vals: &[usize], from: usize, cur: &mut Vec<usize>, out: &mut Vec<Vec<usize>>) {
        if cur.len() == len {
            out.push(cur.clone());
            return;
        }
        for i in from..vals.len() {
            cur.push(vals[i]);
            rec(len, vals, i, cur, out);
            cur.pop();
        }
    }
    let mut out = vec![];
    rec(len, vals, 0, &mut vec![], &mut out);
    out
}

const RULES: [u8; 8] = [1, 2, 1, 3, 2, 1, 3, 2];

/// Fill positions (token order) and rules (preorder) into a shape.
fn fill(f: &mut [Node], pos: &[usize], ti: &mut usize, ni: &mut usize, tags: &[Option<&'static str>]) {
    for n in f.iter_mut() {
        n.rule = format!("{}", RULES[*ni % RULES.len()]);
        n.tag = tags[*ni].map(|s| s.to_string());
        *ni += 1;
        n.start = pos[*ti];
        *ti += 1;
        fill(&mut n.children, pos, ti, ni, tags);
        n.end = pos[*ti];
        *ti += 1;
    }
}

fn build<'i>(mut b: PairsBuilder<'i, u8>, f: &[Node]) -> PairsBuilder<'i, u8> {
    for n in f {
        let rule: u8 = n.rule.parse().unwrap();
        b = if n.children.is_empty() { b.rule(rule, n.start, n.end) } else { b.rule_with(rule, n.start, n.end, |c| build(c, &n.children)) };
        if let Some(t) = &n.tag {
            b = b.tag(if t == "t" { "t" } else { "u" });
        }
    }
    b
}

fn forest_json(f: &[Node]) -> Value {
    json!(f.iter().map(|n| json!({"rule": n.rule, "span": [n.start, n.end], "tag": n.tag, "children": forest_json(&n.children)})).collect::<Vec<_>>())
}

fn has_single_or_flat_len(problems: &[String]) -> Vec<String> {
    // syntactic classification of the API observed (known-finding predicates are keyed on it)
    let mut v = vec![];
    if problems.iter().all(|p| p.contains("Pairs::single(")) {
        v.push("observed-on-pairs-single".to_string());
    }
    if problems.iter().all(|p| p.contains("flatten") && p.contains("len")) {
        v.push("flat-pairs-len".to_string());
    }
    if problems.iter().all(|p| p.contains("to_json") && p.contains("panicked")) {
        v.push("to-json-empty-window".to_string());
    }
    v
}

fn main() {
    let cfg = Cfg::from_env();
    vcore::quiet_panics();
    if let Some(p) = &cfg.replay {
        println!("replay: C04 forests are re-enumerated; the case was\n{:#}", verdict::load_replay(p));
    }
    let quick = cfg.quick();
    let inputs: Vec<(&str, usize)> = if quick { vec![("aé\nb", 3), ("ab", 4), ("", 5), ("a\r\né", 3), ("a\rb", 3)] } else { vec![("aé\nb", 4), ("ab", 6), ("", 6), ("é\n", 5), ("a\r\né\r\n", 4), ("a\rb\n", 4)] };
    // work units: (input, n, shape index)
    let mut work: Vec<(&str, usize, Vec<Node>)> = vec![];
    for (inp, maxn) in &inputs {
        for n in 0..=*maxn {
            for s in shapes(n) {
                work.push((inp, n, s));
            }
        }
    }
    let known = verdict::Known::load();
    let jobs = cfg.jobs;
    let parts: Vec<(Stats, HashSet<u128>, u64)> = std::thread::scope(|sc| {
        let hs: Vec<_> = (0..jobs)
            .map(|j| {
                let (work, known) = (&work, &known);
                sc.spawn(move || {
                    let mut st = Stats::new();
                    let mut states: HashSet<u128> = HashSet::new();
                    let mut transitions = 0u64;
                    for (input, n, shape) in work.iter().skip(j).step_by(jobs) {
                        let bounds: Vec<usize> = (0..=input.len()).filter(|i| input.is_char_boundary(*i)).collect();
                        let mut tagsets: Vec<Vec<Option<&'static str>>> = vec![vec![None; *n]];
                        if *n > 0 {
                            tagsets.push(vec![Some("t"); *n]);
                            for i in 0..*n {
                                let mut t = vec![None; *n];
                                t[i] = Some("t");
                                if i + 1 < *n {
                                    t[i + 1] = Some("u");
                                }
                                tagsets.push(t);
                            }
                        }
                        for pos in nondecreasing(2 * n, &bounds) {
                            for tags in &tagsets {
                                let mut f = shape.clone();
                                fill(&mut f, &pos, &mut 0, &mut 0, tags);
                                let built = vcore::catch(|| build(PairsBuilder::new(input), &f).build());
                                st.inc("evaluations");
                                if *n >= 2 {
                                    st.inc("distinct_nontrivial");
                                }
                                let pairs = match built {
                                    Ok(p) => p,
                                    Err(m) => {
                                        st.violation_class("builder-panics", json!({"kind": "builder-panics", "input": input, "forest": forest_json(&f), "panic": m}));
                                        continue;
                                    }
                                };
                                let mut o = Opts { interleave_upto: 6, check_json: true, observations: 0, transitions: 0 };
                                let mut problems = vec![];
                                check_pairs(&f, &pairs, input, &mut o, &mut problems, 3, "pairs");
                                transitions += o.transitions;
                                st.add("observations", o.observations);
                                states.insert(vcore::hash128(format!("{input}|{f:?}").as_bytes()));
                                st.outcome(&format!("n{n}:depth{}", depth(&f)));
                                if !problems.is_empty() {
                                    let case = json!({"kind": "view-disagrees-with-tree", "input": input, "forest": forest_json(&f), "problems": problems.iter().take(6).collect::<Vec<_>>()});
                                    let preds = has_single_or_flat_len(&problems);
                                    match known.first_open("C04", &preds) {
                                        Some(p) => st.known(p, || case.clone()),
                                        None => {
                                            let class = problems[0].split(':').nth(1).unwrap_or("view").trim().split(' ').take(3).collect::<Vec<_>>().join("-");
                                            st.violation_class(&class, case)
                                        }
                                    }
                                }
                            }
                        }
                    }
                    (st, states, transitions)
                })
            })
            .collect();
        hs.into_iter().map(|h| h.join().unwrap()).collect()
    });
    let mut stats = Stats::new();
    let mut states: HashSet<u128> = HashSet::new();
    let mut transitions = 0u64;
    for (s, st, t) in parts {
        stats.merge(s);
        states.extend(st);
        transitions += t;
    }
    let mut nstates = states.len() as u64;
    stats.sample(|| json!({"input": "aé\nb", "forest": [{"rule": "1", "span": [0, 4], "children": [{"rule": "2", "span": [1, 3], "tag": "t"}]}, {"rule": "1", "span": [4, 5]}], "observed": "every interleaving of next/next_back on Pairs, flatten() and tokens(); len/size_hint/peek after each step; into_inner and Pairs::single recursively; as_str, as_span, concat, line_col, tags, Display, {:#}, Debug, JSON"}));
    // part (a): parses of the grammar corpus, through the sdoc explorer
    let sdoc = std::env::current_exe().unwrap().with_file_name("sdoc");
    if cfg.has("--no-parses") {
        // builder forests only
    } else if sdoc.exists() {
        let out = std::process::Command::new(&sdoc).args(["--prop=C04", "--tier", cfg.tier.name(), "--emit-stats"]).output().expect("run sdoc");
        let txt = String::from_utf8_lossy(&out.stdout);
        match txt.lines().find_map(|l| l.strip_prefix("@STATS ")).and_then(|j| j.parse::<Value>().ok()).and_then(|v| Stats::from_json(&v)) {
            Some(s) => {
                stats.add("evaluations.parses", s.get("evaluations"));
                transitions += s.get("view_transitions");
                nstates += s.get("distinct_parse_trees");
                stats.merge(s);
            }
            None => stats.failures.push(format!("no statistics from the parse corpus run: {}", txt.lines().last().unwrap_or(""))),
        }
    } else {
        stats.failures.push(format!("sdoc binary missing: {}", sdoc.display()));
    }
    let mut cov = vcore::Map::new();
    cov.insert("states".into(), json!(nstates));
    cov.insert("transitions".into(), json!(transitions));
    cov.insert("traces_validated_against_impl".into(), json!(stats.get("evaluations")));
    cov.insert("rule".into(), json!("(b) every ordered forest with up to N nodes (Catalan shapes) x every assignment of non-decreasing boundary positions to its 2N tokens over the inputs \"aé\\nb\", \"ab\", \"\" (so empty spans, shared endpoints and multi-byte boundaries all occur) x tag placements, built with PairsBuilder; (a) every successful parse of the shared grammar corpus on the VM, whose token stream is first checked for balance, nesting, matching rules, non-decreasing boundary positions. For each tree: all 2^k interleavings of next/next_back on Pairs (top level and, recursively, into_inner and Pairs::single of every node), on flatten() and on tokens(), with len/size_hint/peek/is_empty after every step, plus as_str, as_span, concat, line_col, node tags, find_tagged, Display, {:#}, Debug and JSON recomputed from the plain tree. state = distinct (input, tree); transition = one iterator step"));
    verdict::conclude(verdict::Report {
        property: "C04",
        level: "model_checking",
        cfg: &cfg,
        stats,
        coverage: cov,
        assumptions: vec!["the reference is a plain Vec<Node> tree; expected Display/Debug/JSON texts are rebuilt from it".into(), "for an empty Pairs window JSON output must exist and list no pairs; its \"pos\" field is not defined".into()],
    })
}

fn depth(f: &[Node]) -> usize {
    f.iter().map(|n| 1 + depth(&n.children)).max().unwrap_or(0)
}
