//! `S_doc` — the executable reading of pest's documented grammar semantics
//! (DESIGN.md §2.2 and Appendix A; attempt fold of Appendix B for C08).
//!
//! A big-step evaluator over `pest_meta::ast::Expr`. Its state is a *value*
//! `(pos, stack, tokens, mode, in-predicate)`; backtracking is "drop the value", so there
//! are no checkpoints, queue truncations or restores to get wrong. It is written from the
//! prose in derive/src/lib.rs and the Atomicity/Lookahead doc comments, not from the VM.
use pest_meta::ast::{Expr, Rule, RuleType};
use std::collections::HashMap;
use std::rc::Rc;

#[derive(Clone, Copy, PartialEq, Eq, Debug, Hash)]
pub enum Mode {
    N,
    A,
    C,
}

#[derive(Clone, Copy, PartialEq, Eq, Debug, Hash)]
pub struct Tok {
    pub start: bool,
    pub rule: u16,
    pub pos: u32,
}

#[derive(Clone, Debug)]
pub struct St {
    pub p: usize,
    pub k: Vec<Rc<str>>,
    pub t: Vec<Tok>,
    pub m: Mode,
    pub la: bool,
    pub neg: bool,
}

impl St {
    pub fn start() -> St {
        St { p: 0, k: vec![], t: vec![], m: Mode::N, la: false, neg: false }
    }
}

pub enum R {
    /// matched
    M(St),
    /// failed (carries no state: that *is* the all-or-nothing reading)
    F,
    /// diverges (exact detection, or fuel / stack-depth cap — see `Ev::capped`)
    D,
    /// documented panic (PEEK / POP on an empty stack)
    P,
}

/// A grammar prepared for evaluation.
pub struct Gm {
    pub rules: HashMap<String, (RuleType, Expr)>,
    pub names: Vec<String>,
    ids: HashMap<String, u16>,
    pub extras: bool,
    pub has_ws: bool,
    pub has_comment: bool,
}

impl Gm {
    pub fn new(rules: &[Rule]) -> Gm {
        let mut names: Vec<String> = rules.iter().map(|r| r.name.clone()).collect();
        names.push("EOI".to_string());
        names.sort();
        names.dedup();
        let ids = names.iter().enumerate().map(|(i, n)| (n.clone(), i as u16)).collect();
        let map: HashMap<String, (RuleType, Expr)> = rules.iter().map(|r| (r.name.clone(), (r.ty, r.expr.clone()))).collect();
        Gm {
            has_ws: map.contains_key("WHITESPACE"),
            has_comment: map.contains_key("COMMENT"),
            rules: map,
            names,
            ids,
            extras: cfg!(feature = "extras"),
        }
    }
    pub fn id(&self, n: &str) -> u16 {
        *self.ids.get(n).unwrap_or_else(|| panic!("model: unknown rule name {n}"))
    }
    pub fn name(&self, id: u16) -> &str {
        &self.names[id as usize]
    }
}

pub const FUEL: usize = 4000;
pub const STACK_CAP: usize = 12;

/// One evaluation (one grammar, one input).
pub struct Ev<'a> {
    pub g: &'a Gm,
    pub input: &'a str,
    active: Vec<(u16, usize, Mode, Vec<Rc<str>>)>,
    pub fuel: usize,
    /// set when D was produced by a cap rather than by exact cycle detection
    pub capped: bool,
    // ---- attempt fold (Appendix B)
    pub acc_p: usize,
    pub entries: Vec<(u16, bool)>,
    /// soundness side-table: every counting node (rule, pos, negated)
    pub counting: Vec<(u16, usize, bool)>,
    pub record_counting: bool,
    /// every rule entry (name, position) in evaluation order, built-ins and implicit
    /// WHITESPACE/COMMENT attempts included (C17's reference for "the entries of the parse")
    pub trace: Option<Vec<(String, usize)>>,
}

pub fn is_builtin(n: &str) -> bool {
    matches!(
        n,
        "ANY" | "SOI" | "EOI" | "PEEK" | "POP" | "PEEK_ALL" | "POP_ALL" | "DROP" | "ASCII_DIGIT" | "ASCII_NONZERO_DIGIT"
            | "ASCII_BIN_DIGIT" | "ASCII_OCT_DIGIT" | "ASCII_HEX_DIGIT" | "ASCII_ALPHA_LOWER" | "ASCII_ALPHA_UPPER"
            | "ASCII_ALPHA" | "ASCII_ALPHANUMERIC" | "ASCII" | "NEWLINE"
    )
}

impl<'a> Ev<'a> {
    pub fn new(g: &'a Gm, input: &'a str) -> Ev<'a> {
        Ev { g, input, active: vec![], fuel: FUEL, capped: false, acc_p: 0, entries: vec![], counting: vec![], record_counting: false, trace: None }
    }

    /// Parse `rule` from the start of the input.
    pub fn run(&mut self, rule: &str) -> R {
        self.call(rule, St::start())
    }

    fn tick(&mut self) -> bool {
        if self.fuel == 0 {
            self.capped = true;
            return false;
        }
        self.fuel -= 1;
        true
    }

    /// The implicit skip between the elements of sequences and repetitions.
    fn skip(&mut self, s: St) -> R {
        if s.m != Mode::N {
            return R::M(s);
        }
        let (w, c) = (self.g.has_ws, self.g.has_comment);
        if !w && !c {
            return R::M(s);
        }
        let mut cur = s;
        if w {
            cur = match self.star_rule("WHITESPACE", cur) {
                R::M(x) => x,
                o => return o,
            };
        }
        if c {
            loop {
                // (COMMENT ~ WHITESPACE*) as an all-or-nothing unit
                let before = (cur.p, cur.k.clone());
                match self.call("COMMENT", cur.clone()) {
                    R::M(x) => {
                        let x = if w {
                            match self.star_rule("WHITESPACE", x) {
                                R::M(y) => y,
                                o => return o,
                            }
                        } else {
                            x
                        };
                        if x.p == before.0 && x.k == before.1 {
                            return R::D;
                        }
                        cur = x;
                    }
                    R::F => break,
                    o => return o,
                }
            }
        }
        R::M(cur)
    }

    fn star_rule(&mut self, n: &str, s: St) -> R {
        let mut cur = s;
        loop {
            match self.call(n, cur.clone()) {
                R::M(x) => {
                    if x.p == cur.p && x.k == cur.k {
                        return R::D;
                    }
                    cur = x;
                }
                R::F => return R::M(cur),
                o => return o,
            }
        }
    }

    fn lit(&self, mut s: St, lit: &str, insens: bool) -> R {
        let rest = &self.input.as_bytes()[s.p..];
        let l = lit.as_bytes();
        let ok = rest.len() >= l.len()
            && if insens { rest[..l.len()].eq_ignore_ascii_case(l) && self.input.is_char_boundary(s.p + l.len()) } else { &rest[..l.len()] == l };
        if ok {
            s.p += l.len();
            R::M(s)
        } else {
            R::F
        }
    }

    fn ch(&self, mut s: St, f: impl Fn(char) -> bool) -> R {
        match self.input[s.p..].chars().next() {
            Some(c) if f(c) => {
                s.p += c.len_utf8();
                R::M(s)
            }
            _ => R::F,
        }
    }

    fn builtin(&mut self, n: &str, s: St) -> Option<R> {
        Some(match n {
            "ANY" => self.ch(s, |_| true),
            "SOI" => {
                if s.p == 0 {
                    R::M(s)
                } else {
                    R::F
                }
            }
            "EOI" => {
                // behaves as a normal (pair-emitting) rule named EOI
                let open = (self.acc_p, self.entries.len());
                let matched = s.p == self.input.len();
                let id = self.g.id("EOI");
                if s.m != Mode::A {
                    self.close(id, s.p, matched, s.neg, open);
                }
                if !matched {
                    return Some(R::F);
                }
                let mut s = s;
                if !s.la && s.m != Mode::A {
                    s.t.push(Tok { start: true, rule: id, pos: s.p as u32 });
                    s.t.push(Tok { start: false, rule: id, pos: s.p as u32 });
                }
                R::M(s)
            }
            "PEEK" => {
                let Some(t) = s.k.last().cloned() else { return Some(R::P) };
                self.lit(s, &t, false)
            }
            "POP" => {
                let Some(t) = s.k.last().cloned() else { return Some(R::P) };
                match self.lit(s, &t, false) {
                    R::M(mut x) => {
                        x.k.pop();
                        R::M(x)
                    }
                    o => o,
                }
            }
            "PEEK_ALL" | "POP_ALL" => {
                let items: Vec<Rc<str>> = s.k.iter().rev().cloned().collect();
                let mut cur = s;
                for t in &items {
                    match self.lit(cur, t, false) {
                        R::M(x) => cur = x,
                        _ => return Some(R::F),
                    }
                }
                if n == "POP_ALL" {
                    cur.k.clear();
                }
                R::M(cur)
            }
            "DROP" => {
                let mut s = s;
                if s.k.pop().is_some() {
                    R::M(s)
                } else {
                    R::F
                }
            }
            "ASCII_DIGIT" => self.ch(s, |c| c.is_ascii_digit()),
            "ASCII_NONZERO_DIGIT" => self.ch(s, |c| ('1'..='9').contains(&c)),
            "ASCII_BIN_DIGIT" => self.ch(s, |c| c == '0' || c == '1'),
            "ASCII_OCT_DIGIT" => self.ch(s, |c| ('0'..='7').contains(&c)),
            "ASCII_HEX_DIGIT" => self.ch(s, |c| c.is_ascii_hexdigit()),
            "ASCII_ALPHA_LOWER" => self.ch(s, |c| c.is_ascii_lowercase()),
            "ASCII_ALPHA_UPPER" => self.ch(s, |c| c.is_ascii_uppercase()),
            "ASCII_ALPHA" => self.ch(s, |c| c.is_ascii_alphabetic()),
            "ASCII_ALPHANUMERIC" => self.ch(s, |c| c.is_ascii_alphanumeric()),
            "ASCII" => self.ch(s, |c| c.is_ascii()),
            "NEWLINE" => {
                for l in ["\n", "\r\n", "\r"] {
                    if let R::M(x) = self.lit(s.clone(), l, false) {
                        return Some(R::M(x));
                    }
                }
                R::F
            }
            // Unicode property rules: one character of that property (M9: through pest::unicode)
            _ => match pest::unicode::by_name(n) {
                Some(f) => self.ch(s, |c| f(c)),
                None => return None,
            },
        })
    }

    pub fn call(&mut self, n: &str, s: St) -> R {
        if let Some(t) = &mut self.trace {
            t.push((n.to_string(), s.p));
        }
        if !self.tick() {
            return R::D;
        }
        let user = self.g.rules.get(n);
        if user.is_none() {
            if let Some(r) = self.builtin(n, s) {
                return r;
            }
            panic!("model: undefined rule {n}");
        }
        let (ty, body) = user.unwrap();
        let ty = *ty;
        let special = n == "WHITESPACE" || n == "COMMENT";
        let id = self.g.id(n);
        let key = (id, s.p, s.m, s.k.clone());
        if self.active.contains(&key) {
            return R::D;
        }
        let outer = s.m;
        let (emit, body_mode) = if special {
            match ty {
                RuleType::Normal | RuleType::Atomic => (!s.la && outer != Mode::A, Mode::A),
                RuleType::Silent => (false, Mode::A),
                RuleType::CompoundAtomic => (!s.la, Mode::C),
                // `!`: the rule itself runs non-atomically (its pair appears even under an atomic caller), its body atomically
                RuleType::NonAtomic => (!s.la, Mode::A),
            }
        } else {
            match ty {
                RuleType::Normal => (!s.la && outer != Mode::A, outer),
                RuleType::Silent => (false, outer),
                RuleType::Atomic => (!s.la && outer != Mode::A, Mode::A),
                RuleType::CompoundAtomic => (!s.la, Mode::C),
                RuleType::NonAtomic => (!s.la, Mode::N),
            }
        };
        let reportable = match (special, ty) {
            (_, RuleType::Silent) => false,
            (_, RuleType::CompoundAtomic) => true,
            (_, RuleType::NonAtomic) => true,
            _ => outer != Mode::A,
        };
        let open = (self.acc_p, self.entries.len());
        let negp = s.neg;
        let start = s.p;
        let mut inner = s;
        inner.m = body_mode;
        if emit {
            inner.t.push(Tok { start: true, rule: id, pos: start as u32 });
        }
        self.active.push(key);
        // the body is cloned out of the map so that `self` stays free (bodies are tiny)
        let body = body.clone();
        let r = self.eval(&body, inner);
        self.active.pop();
        if reportable {
            match &r {
                R::M(_) => self.close(id, start, true, negp, open),
                R::F => self.close(id, start, false, negp, open),
                _ => {}
            }
        }
        match r {
            R::M(mut x) => {
                x.m = outer;
                if emit {
                    x.t.push(Tok { start: false, rule: id, pos: x.p as u32 });
                }
                R::M(x)
            }
            o => o,
        }
    }

    /// Appendix B: closing a reportable node.
    fn close(&mut self, id: u16, q: usize, matched: bool, neg: bool, open: (usize, usize)) {
        let counting = (!neg && !matched) || (neg && matched);
        if !counting {
            return;
        }
        if self.record_counting {
            self.counting.push((id, q, neg));
        }
        if q < self.acc_p {
            return;
        }
        if q > self.acc_p {
            self.acc_p = q;
            self.entries.clear();
            self.entries.push((id, neg));
            return;
        }
        let base = if open.0 == q { open.1.min(self.entries.len()) } else { 0 };
        if self.entries.len() - base == 1 {
            return;
        }
        self.entries.truncate(base);
        self.entries.push((id, neg));
    }

    fn seq2(&mut self, a: &Expr, b: &Expr, s: St) -> R {
        let s1 = match self.eval(a, s) {
            R::M(x) => x,
            o => return o,
        };
        let s2 = match self.skip(s1) {
            R::M(x) => x,
            o => return o,
        };
        self.eval(b, s2)
    }

    fn rep(&mut self, e: &Expr, s: St, first_mandatory: bool) -> R {
        let mut cur = match self.eval(e, s.clone()) {
            R::M(x) => {
                if x.p == s.p && x.k == s.k {
                    return R::D;
                }
                x
            }
            R::F => return if first_mandatory { R::F } else { R::M(s) },
            o => return o,
        };
        loop {
            let sk = match self.skip(cur.clone()) {
                R::M(x) => x,
                R::F => return R::M(cur),
                o => return o,
            };
            match self.eval(e, sk) {
                R::M(x) => {
                    if x.p == cur.p && x.k == cur.k {
                        return R::D;
                    }
                    cur = x;
                }
                R::F => return R::M(cur),
                o => return o,
            }
        }
    }

    pub fn eval(&mut self, e: &Expr, s: St) -> R {
        if !self.tick() {
            return R::D;
        }
        if s.k.len() > STACK_CAP {
            self.capped = true;
            return R::D;
        }
        match e {
            Expr::Str(l) => self.lit(s, l, false),
            Expr::Insens(l) => self.lit(s, l, true),
            Expr::Range(a, b) => {
                let (a, b) = (a.chars().next().unwrap(), b.chars().next().unwrap());
                self.ch(s, |c| a <= c && c <= b)
            }
            Expr::Ident(n) => self.call(n, s),
            Expr::PeekSlice(a, b) => {
                let len = s.k.len() as i64;
                let norm = |i: i64| -> Option<usize> {
                    if i > len {
                        None
                    } else if i >= 0 {
                        Some(i as usize)
                    } else if len + i >= 0 {
                        Some((len + i) as usize)
                    } else {
                        None
                    }
                };
                let Some(st) = norm(*a as i64) else { return R::F };
                let en = match b {
                    None => s.k.len(),
                    Some(b) => match norm(*b as i64) {
                        Some(x) => x,
                        None => return R::F,
                    },
                };
                if en <= st {
                    return R::M(s);
                }
                let items: Vec<Rc<str>> = s.k[st..en].to_vec();
                let mut cur = s;
                for t in &items {
                    match self.lit(cur, t, false) {
                        R::M(x) => cur = x,
                        _ => return R::F,
                    }
                }
                R::M(cur)
            }
            Expr::PosPred(x) | Expr::NegPred(x) => {
                let pos = matches!(e, Expr::PosPred(_));
                let mut inner = s.clone();
                inner.la = true;
                if !pos {
                    inner.neg = !inner.neg;
                }
                match self.eval(x, inner) {
                    R::M(_) => {
                        if pos {
                            R::M(s)
                        } else {
                            R::F
                        }
                    }
                    R::F => {
                        if pos {
                            R::F
                        } else {
                            R::M(s)
                        }
                    }
                    o => o,
                }
            }
            Expr::Seq(a, b) => self.seq2(a, b, s),
            Expr::Choice(a, b) => match self.eval(a, s.clone()) {
                R::F => self.eval(b, s),
                o => o,
            },
            Expr::Opt(x) => match self.eval(x, s.clone()) {
                R::F => R::M(s),
                o => o,
            },
            Expr::Rep(x) => self.rep(x, s, false),
            Expr::RepOnce(x) => {
                if self.g.extras {
                    self.rep(x, s, true)
                } else {
                    let r = Expr::Rep(x.clone());
                    self.seq2(x, &r, s)
                }
            }
            Expr::RepExact(x, n) => self.bounded(x, *n, Some(*n), s),
            Expr::RepMin(x, n) => self.bounded(x, *n, None, s),
            Expr::RepMax(x, n) => self.bounded(x, 0, Some(*n), s),
            Expr::RepMinMax(x, m, n) => self.bounded(x, *m, Some(*n), s),
            Expr::Push(x) => {
                let st = s.p;
                match self.eval(x, s) {
                    R::M(mut y) => {
                        y.k.push(Rc::from(&self.input[st..y.p]));
                        R::M(y)
                    }
                    o => o,
                }
            }
            Expr::Skip(strs) => {
                // least q >= p at which some string is a prefix, else |input|
                let mut q = s.p;
                loop {
                    if q >= self.input.len() {
                        q = self.input.len();
                        break;
                    }
                    if self.input.is_char_boundary(q) && strs.iter().any(|t| self.input[q..].starts_with(t.as_str())) {
                        break;
                    }
                    q += 1;
                }
                let mut s = s;
                s.p = q;
                R::M(s)
            }
            #[cfg(feature = "extras")]
            Expr::PushLiteral(l) => {
                let mut s = s;
                s.k.push(Rc::from(l.as_str()));
                R::M(s)
            }
            #[cfg(feature = "extras")]
            Expr::NodeTag(x, _) => self.eval(x, s),
        }
    }

    /// M4: bounded repetitions are `~`-sequences.
    fn bounded(&mut self, x: &Expr, m: u32, n: Option<u32>, s: St) -> R {
        let mut items: Vec<Expr> = (0..m).map(|_| x.clone()).collect();
        match n {
            None => items.push(Expr::Rep(Box::new(x.clone()))),
            Some(n) => {
                for _ in m..n {
                    items.push(Expr::Opt(Box::new(x.clone())));
                }
            }
        }
        if items.is_empty() {
            panic!("model: e{{0}} is outside the documented language");
        }
        let mut cur = s;
        let mut first = true;
        for it in &items {
            if !first {
                cur = match self.skip(cur) {
                    R::M(x) => x,
                    o => return o,
                };
            }
            first = false;
            cur = match self.eval(it, cur) {
                R::M(x) => x,
                o => return o,
            };
        }
        R::M(cur)
    }
}

/// Outcome of one model run, in comparable form.
#[derive(Clone, Debug, PartialEq, Eq)]
pub enum MOut {
    Match { pos: usize, toks: Vec<(bool, String, usize)>, stack: Vec<String> },
    Fail,
    Diverges { capped: bool },
    Panics,
}

pub fn run_model(g: &Gm, rule: &str, input: &str) -> MOut {
    let mut ev = Ev::new(g, input);
    match ev.run(rule) {
        R::M(s) => MOut::Match {
            pos: s.p,
            toks: s.t.iter().map(|t| (t.start, g.name(t.rule).to_string(), t.pos as usize)).collect(),
            stack: s.k.iter().map(|x| x.to_string()).collect(),
        },
        R::F => MOut::Fail,
        R::D => MOut::Diverges { capped: ev.capped },
        R::P => MOut::Panics,
    }
}

/// The C08 prediction for a failing run: (position, positives, negatives) plus the
/// soundness side-table.
pub struct Predicted {
    pub pos: usize,
    pub positives: Vec<String>,
    pub negatives: Vec<String>,
    pub counting: Vec<(String, usize, bool)>,
}

pub fn predict_error(g: &Gm, rule: &str, input: &str) -> Option<Predicted> {
    let mut ev = Ev::new(g, input);
    ev.record_counting = true;
    match ev.run(rule) {
        R::F => {}
        _ => return None,
    }
    let mut positives: Vec<String> = ev.entries.iter().filter(|e| !e.1).map(|e| g.name(e.0).to_string()).collect();
    positives.sort();
    positives.dedup();
    let mut negatives: Vec<String> = ev.entries.iter().filter(|e| e.1).map(|e| g.name(e.0).to_string()).collect();
    negatives.sort();
    negatives.dedup();
    Some(Predicted {
        pos: ev.acc_p,
        positives,
        negatives,
        counting: ev.counting.iter().map(|(i, p, n)| (g.name(*i).to_string(), *p, *n)).collect(),
    })
}
