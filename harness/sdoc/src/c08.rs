//! C08 — failure reports point at the furthest failure with sound expectations.
//! Oracle: the attempt fold of DESIGN Appendix B, run on the *optimized* rules.
use crate::c01::real_json;
use crate::corpus::Prepared;
use crate::model::{predict_error, Gm};
use crate::passes;
use crate::real::{run_vm, Real};
use vcore::verdict::Known;
use vcore::{json, Stats};

pub fn check_grammar(p: &Prepared, _known: &Known, stats: &mut Stats) {
    let og = Gm::new(&passes::back_rules(&p.opt));
    // factor and list merge attempts on purpose (a rule tried twice becomes a rule tried once); every
    // other pass must leave the reportable attempts alone
    let st = passes::stages(&p.ast);
    let merging_passes_idle = st[4] == st[5] && st[5] == st[6];
    let mut sampled = false;
    for start in &p.starts {
        for input in p.inputs.iter() {
            // model on the optimized rules: only failing runs are of interest
            let Some(pred) = predict_error(&og, start, input) else {
                stats.inc("skipped.model-does-not-fail");
                continue;
            };
            let r = run_vm(&p.vm, start, input);
            let Real::Err { pos, positives, negatives, custom: None } = &r else {
                // acceptance disagreements are C01's business, not C08's
                stats.inc("skipped.real-did-not-fail(C01)");
                continue;
            };
            stats.inc("evaluations");
            if *pos > 0 || positives.len() + negatives.len() > 1 {
                stats.inc("distinct_nontrivial");
            }
            stats.outcome(&format!("pos{}:+{}:-{}", (*pos).min(5), positives.len().min(4), negatives.len().min(3)));
            if !sampled && (stats.samples.len() < 2 || stats.get("grammars_accepted") % 4000 == 0) {
                sampled = true;
                stats.sample(|| json!({"grammar": p.text, "rule": start, "input": input, "reported": real_json(&r), "predicted": {"pos": pred.pos, "positives": pred.positives, "negatives": pred.negatives}}));
            }
            // the report the *written* grammar calls for (the fold on the unoptimized AST): wherever the
            // two attempt-merging passes did nothing it must be the report of the optimized rules too
            let mut written_differs: Option<String> = None;
            if merging_passes_idle {
                match predict_error(&p.gm, start, input) {
                    Some(w) if w.pos == pred.pos && w.positives == pred.positives && w.negatives == pred.negatives => stats.inc("written_grammar_report.same"),
                    Some(w) => written_differs = Some(format!("the written grammar calls for pos {} +{:?} -{:?}, the optimized rules for pos {} +{:?} -{:?} (factor and list did not apply)", w.pos, w.positives, w.negatives, pred.pos, pred.positives, pred.negatives)),
                    None => stats.inc("written_grammar_report.written-does-not-fail(C05)"),
                }
            }
            let mut problems: Vec<String> = vec![];
            // soundness clauses, straight from the attempt forest
            let furthest = pred.counting.iter().map(|c| c.1).max().unwrap_or(0);
            if *pos != furthest {
                problems.push(format!("position {pos} is not the furthest reportable failure {furthest}"));
            }
            if *pos > input.len() || !input.is_char_boundary(*pos) {
                problems.push(format!("position {pos} is not a character boundary inside the input"));
            }
            for n in positives {
                if !pred.counting.iter().any(|c| &c.0 == n && c.1 == *pos && !c.2) {
                    problems.push(format!("expected rule {n} was not tried-and-failed at {pos}"));
                }
            }
            for n in negatives {
                if !pred.counting.iter().any(|c| &c.0 == n && c.1 == *pos && c.2) {
                    problems.push(format!("unexpected rule {n} did not match under negation at {pos}"));
                }
            }
            let sorted = |v: &Vec<String>| v.windows(2).all(|w| w[0] < w[1]);
            if !sorted(positives) || !sorted(negatives) {
                problems.push("lists are not strictly ascending".into());
            }
            // the collapse rule (equality with the fold)
            if problems.is_empty() && (*pos != pred.pos || positives != &pred.positives || negatives != &pred.negatives) {
                problems.push(format!("collapse rule: fold predicts pos {} +{:?} -{:?}", pred.pos, pred.positives, pred.negatives));
            }
            if let Some(w) = written_differs {
                problems.push(w);
            }
            if !problems.is_empty() {
                let class = if problems[0].starts_with("the written") { "optimizer-changes-the-report" } else if problems[0].starts_with("collapse") { "collapse-rule" } else if problems[0].starts_with("position") { "position" } else { "soundness" };
                stats.violation_class(class, json!({"kind": "error-report-unsound", "grammar": p.text, "rule": start, "input": input, "reported": real_json(&r), "problems": problems,
                    "features": if cfg!(feature = "extras") { "grammar-extras" } else { "default" }, "backend": "vm"}));
            }
        }
    }
}

pub fn replay(case: &vcore::Value) -> bool {
    let text = case["grammar"].as_str().unwrap();
    let rule = case["rule"].as_str().unwrap();
    let input = case["input"].as_str().unwrap();
    let crate::corpus::Prep::Ok(p) = crate::corpus::prepare(text, "replay", std::rc::Rc::new(vec![input.to_string()]), vec![rule.to_string()]) else {
        println!("replay: pest no longer accepts the grammar");
        return true;
    };
    let mut st = Stats::new();
    check_grammar(&p, &Known::default(), &mut st);
    for v in &st.violations {
        println!("{v:#}");
    }
    st.get("violations") == 0
}
