//! Grammar / input enumerators (DESIGN.md §2.3). Grammars are produced as *text* so that
//! the real reader, validator and optimizer are all on the path of every case.
use std::collections::HashSet;

pub const LEAVES: &[&str] = &[
    "\"a\"", "\"b\"", "\"ab\"", "\"\"", "^\"a\"", "'a'..'b'", "ANY", "SOI", "EOI", "s", "PUSH(\"a\")", "PUSH(ANY)", "POP", "PEEK",
    "DROP", "POP_ALL", "PEEK_ALL", "PEEK[..]", "PEEK[-1..]", "PEEK[0..1]",
];
#[cfg(feature = "extras")]
pub const EXTRA_LEAVES: &[&str] = &["PUSH_LITERAL(\"a\")"];
#[cfg(not(feature = "extras"))]
pub const EXTRA_LEAVES: &[&str] = &[];

/// Stack-free leaves (C06 and the cheaper slices).
pub const PLAIN_LEAVES: &[&str] = &["\"a\"", "\"b\"", "\"ab\"", "\"\"", "^\"a\"", "'a'..'b'", "ANY", "SOI", "EOI", "s"];

pub const UNARY: &[(&str, &str)] = &[
    ("(", ")?"),
    ("(", ")*"),
    ("(", ")+"),
    ("(", "){2}"),
    ("(", "){1,}"),
    ("(", "){,2}"),
    ("(", "){1,2}"),
    ("&(", ")"),
    ("!(", ")"),
    ("PUSH(", ")"),
];
#[cfg(feature = "extras")]
pub const EXTRA_UNARY: &[(&str, &str)] = &[("(#t = (", "))")];
#[cfg(not(feature = "extras"))]
pub const EXTRA_UNARY: &[(&str, &str)] = &[];

/// All expression texts of size 1..=max (size = number of nodes), grouped by size, smallest first.
pub fn bodies_by_size(leaves: &[&str], unary: &[(&str, &str)], max: usize) -> Vec<Vec<String>> {
    let mut by: Vec<Vec<String>> = vec![vec![], leaves.iter().map(|s| s.to_string()).collect()];
    for n in 2..=max {
        let mut v = vec![];
        for (a, b) in unary {
            for e in &by[n - 1] {
                v.push(format!("{a}{e}{b}"));
            }
        }
        for i in 1..n - 1 {
            let j = n - 1 - i;
            if j >= 1 {
                for x in &by[i] {
                    for y in &by[j] {
                        v.push(format!("({x} ~ {y})"));
                        v.push(format!("({x} | {y})"));
                    }
                }
            }
        }
        by.push(v);
    }
    by
}

pub fn all_leaves() -> Vec<&'static str> {
    LEAVES.iter().chain(EXTRA_LEAVES.iter()).copied().collect()
}
pub fn all_unary() -> Vec<(&'static str, &'static str)> {
    UNARY.iter().chain(EXTRA_UNARY.iter()).copied().collect()
}

pub const TYPES: &[&str] = &["", "_", "@", "$", "!"];
pub const WSS: &[&str] = &[
    "",
    "WHITESPACE = _{ \" \" } ",
    "WHITESPACE = { \" \" } ",
    "WHITESPACE = ${ \" \" } COMMENT = _{ \"#\" } ",
    "COMMENT = { \"#\" } ",
    "WHITESPACE = @{ \" \" } COMMENT = ${ \"#\" ~ \"#\"? } ",
    "WHITESPACE = !{ \" \" } COMMENT = !{ \"#\" ~ \"#\"? } ",
];
pub const SDEFS: &[&str] = &[
    "s = { \"a\" ~ \"b\" }",
    "s = @{ \"a\" ~ \"b\" | \"b\" }",
    "s = !{ \"b\" ~ \"a\"? }",
    "s = ${ \"a\" ~ r2 } r2 = { \"b\" }",
    "s = _{ \"a\"+ }",
];

#[derive(Clone, Debug)]
pub struct Frame {
    pub ws: usize,
    pub ty: usize,
    pub sdef: usize,
    /// substitute the 2-byte character 'é' for 'b' throughout grammar and inputs
    pub wide: bool,
}

impl Frame {
    pub fn text(&self, body: &str) -> String {
        let g = format!("{}{} r = {}{{ {} }}", WSS[self.ws], SDEFS[self.sdef], TYPES[self.ty], body);
        if self.wide {
            widen(&g)
        } else {
            g
        }
    }
    pub fn alphabet(&self) -> Vec<char> {
        let ws = WSS[self.ws];
        let mut a = vec!['a', if self.wide { 'é' } else { 'b' }];
        if ws.contains("\" \"") {
            a.push(' ');
        }
        if ws.contains('#') {
            a.push('#');
        }
        if a.len() == 2 {
            a.push('x');
        }
        a
    }
    pub fn label(&self) -> String {
        format!("ws{}-ty{}-s{}{}", self.ws, self.ty, self.sdef, if self.wide { "-wide" } else { "" })
    }
    pub fn start_rules(&self) -> Vec<&'static str> {
        let mut v = vec!["r", "s"];
        if SDEFS[self.sdef].contains("r2") {
            v.push("r2");
        }
        if WSS[self.ws].contains("WHITESPACE") {
            v.push("WHITESPACE");
        }
        if WSS[self.ws].contains("COMMENT") {
            v.push("COMMENT");
        }
        v
    }
}

/// 'b' -> 'é' in literals (rule names and keywords contain no lowercase b).
pub fn widen(g: &str) -> String {
    g.replace('b', "é")
}

/// The frames: `full` = whole product; otherwise the "star": each dimension varied against the
/// plain choice of the other two (61 for 5x5x5).
pub fn frames(full: bool, wide_too: bool) -> Vec<Frame> {
    let mut v = vec![];
    for ws in 0..WSS.len() {
        for ty in 0..TYPES.len() {
            for sdef in 0..SDEFS.len() {
                if !full && !(ws == 0 || ty == 0 || sdef == 0) {
                    continue;
                }
                v.push(Frame { ws, ty, sdef, wide: false });
            }
        }
    }
    if wide_too {
        for ty in 0..TYPES.len() {
            v.push(Frame { ws: 0, ty, sdef: 0, wide: true });
        }
        v.push(Frame { ws: 1, ty: 0, sdef: 1, wide: true });
    }
    v
}

pub fn inputs(alpha: &[char], l: usize) -> Vec<String> {
    vcore::strings_upto(alpha, l)
}

/// Deduplicating collector of grammar texts.
#[derive(Default)]
pub struct Dedup {
    seen: HashSet<u64>,
}
impl Dedup {
    pub fn fresh(&mut self, g: &str) -> bool {
        self.seen.insert(vcore::fnv64(g.as_bytes()))
    }
}

// ------------------------------------------------------------------ redex-directed slices

/// Sub-terms used to instantiate rewrite redexes (C05) — small but covering tokens, stack
/// effects, nullable and multi-byte matches.
pub const REDEX_TERMS: &[&str] = &["\"a\"", "\"b\"", "\"\"", "s", "ANY", "PUSH(\"a\")", "POP", "DROP", "(\"a\" ~ \"b\")", "(\"a\" | \"b\")", "\"a\"*", "!\"a\"", "PEEK"];

/// Redex-directed bodies (DESIGN §3 C05): every rewrite redex of every pass instantiated with
/// all combinations of REDEX_TERMS (or the first `k` of them).
pub fn redex_bodies(k: usize) -> Vec<(String, &'static str)> {
    let t: Vec<&str> = REDEX_TERMS.iter().take(k).copied().collect();
    let mut v: Vec<(String, &'static str)> = vec![];
    for x in &t {
        for y in &t {
            // lister
            v.push((format!("({x} ~ {y})* ~ {x}"), "list"));
            v.push((format!("({x} ~ {y})* ~ {x} ~ {y}"), "list"));
            v.push((format!("({x} ~ {y})+ ~ {x}"), "list"));
            // factorizer
            v.push((format!("({x} ~ {y}) | {x}"), "factor"));
            v.push((format!("{x} | ({x} ~ {y})"), "factor"));
            for z in &t {
                v.push((format!("({x} ~ {y}) | ({x} ~ {z})"), "factor"));
                v.push((format!("({x} ~ {y}) | ({x} ~ {z}) | {y}"), "factor"));
                // rotate
                v.push((format!("(({x} ~ {y}) ~ {z})"), "rotate"));
                v.push((format!("(({x} | {y}) | {z})"), "rotate"));
                v.push((format!("(({x} | {y}) ~ {z}) | {x}"), "rotate"));
            }
            // restorer: stack ops under ?, |, *, predicates
            v.push((format!("({x} ~ {y})? ~ {x}"), "restore"));
            v.push((format!("({x} ~ {y})* ~ {y}"), "restore"));
            v.push((format!("PUSH({x}) ~ ({y} | {x})"), "restore"));
            v.push((format!("PUSH({x}) ~ PUSH({y}) ~ (POP_ALL | {y} ~ PEEK_ALL)"), "restore"));
            v.push((format!("PUSH({x}) ~ PUSH({y}) ~ ((POP ~ {x}) | PEEK[..])"), "restore"));
            v.push((format!("PUSH({x}) ~ ((DROP ~ {y})? ~ PEEK)"), "restore"));
            v.push((format!("PUSH({x}) ~ (&(POP ~ {y}) ~ PEEK | {y})"), "restore"));
            v.push((format!("PUSH({x}) ~ (!(DROP ~ {y}) ~ PEEK)"), "restore"));
            v.push((format!("PUSH({x}) ~ ((DROP ~ {y})* ~ PEEK_ALL)"), "restore"));
            // a multi-entry stack match that fails part-way, followed by more parsing
            v.push((format!("PUSH({x}) ~ PUSH({y}) ~ (PEEK_ALL | {x}) ~ ANY?"), "restore"));
            v.push((format!("PUSH({x}) ~ PUSH({y}) ~ PEEK[0..2]? ~ ANY*"), "restore"));
            v.push((format!("PUSH({x}) ~ PUSH({y}) ~ PEEK[..]* ~ ANY ~ EOI"), "restore"));
            v.push((format!("PUSH({x}) ~ PUSH({y}) ~ (PEEK[-2..] ~ \"x\" | ANY ~ {y})"), "restore"));
            v.push((format!("PUSH({x}) ~ PUSH({y}) ~ PUSH({x}) ~ (!PEEK_ALL ~ ANY)* ~ PEEK[1..]?"), "restore"));
            // the same with the popping matchers (a partial POP_ALL / POP must leave position and stack alone)
            v.push((format!("PUSH({x}) ~ PUSH({y}) ~ (POP_ALL | {y}) ~ ANY?"), "restore"));
            v.push((format!("PUSH({x}) ~ PUSH({y}) ~ POP_ALL? ~ ANY*"), "restore"));
            v.push((format!("PUSH({x}) ~ PUSH({y}) ~ POP_ALL* ~ ANY ~ EOI"), "restore"));
            v.push((format!("PUSH({x}) ~ PUSH({y}) ~ POP? ~ PEEK ~ ANY?"), "restore"));
            v.push((format!("PUSH({x}) ~ PUSH({y}) ~ (POP | {x}) ~ POP? ~ PEEK_ALL?"), "restore"));
            // repetitions whose iterations consume nothing yet change the stack (greedy: until the body fails)
            v.push((format!("PUSH({x}) ~ PUSH({y}) ~ PUSH({x}) ~ DROP* ~ PEEK_ALL ~ EOI"), "restore"));
            v.push((format!("PUSH({x}) ~ PUSH({y}) ~ PUSH({x}) ~ DROP+ ~ PUSH({y}) ~ PEEK_ALL ~ ANY?"), "restore"));
            v.push((format!("PUSH(\"\") ~ PUSH({x}?) ~ PUSH(\"\") ~ POP* ~ PEEK_ALL ~ {y}?"), "restore"));
            // the same under the operators a traversal may forget to descend into: + (kept as such
            // under grammar-extras), PUSH, predicates, and node tags
            v.push((format!("PUSH({x}) ~ PUSH({y}) ~ (POP_ALL | {y})+ ~ ANY?"), "restore"));
            v.push((format!("PUSH({x}) ~ PUSH({y}) ~ (POP? ~ {x})+ ~ PEEK_ALL?"), "restore"));
            v.push((format!("PUSH({x}) ~ PUSH({y}) ~ PUSH(POP_ALL | {y}) ~ PEEK[0..1] ~ ANY?"), "restore"));
            v.push((format!("PUSH({x}) ~ PUSH({y}) ~ &(POP_ALL | {y}) ~ PEEK_ALL ~ ANY?"), "restore"));
            #[cfg(feature = "extras")]
            {
                v.push((format!("PUSH({x}) ~ PUSH({y}) ~ (#t = (POP_ALL | {y})) ~ ANY?"), "restore"));
                v.push((format!("PUSH({x}) ~ PUSH({y}) ~ (#t = (POP | {x})) ~ POP? ~ PEEK_ALL?"), "restore"));
                v.push((format!("PUSH({x}) ~ (#t = ((DROP ~ {y})? ~ PEEK))"), "restore"));
                v.push((format!("PUSH({x}) ~ PUSH({y}) ~ (#t = ({x} ~ (POP_ALL | {y}))) ~ ANY?"), "restore"));
                v.push((format!("PUSH({x}) ~ PUSH({y}) ~ (#t = (POP_ALL* ~ {y})) ~ ANY ~ EOI"), "restore"));
            }
        }
        // unroll
        for (i, rep) in ["{1}", "{2}", "{3}", "{1,}", "{2,}", "{,1}", "{,2}", "{,3}", "{1,1}", "{1,2}", "{1,3}", "{2,3}", "{0,2}", "+"].iter().enumerate() {
            let _ = i;
            v.push((format!("({x}){rep}"), "unroll"));
            v.push((format!("({x}){rep} ~ \"b\""), "unroll"));
            v.push((format!("(({x}){rep})*"), "unroll"));
            // counted repetitions nested below another counted repetition, not at the top of its group
            v.push((format!("(({x}){rep} ~ \"b\"){{1,2}}"), "unroll"));
            v.push((format!("(\"a\"? ~ ({x}){rep}){{2}}"), "unroll"));
        }
    }
    // skipper (only fires in @ rules; the frame supplies the rule type)
    let strs = ["\"a\"", "\"b\"", "\"ab\"", "\"\"", "s", "lit", "nas", "lit2"];
    for a in &strs {
        v.push((format!("(!{a} ~ ANY)*"), "skip"));
        v.push((format!("(!({a}) ~ ANY)* ~ {a}"), "skip"));
        // ... followed by something that fails where the stop matched (what the report says there)
        v.push((format!("(!{a} ~ ANY)* ~ \"x\""), "skip"));
        v.push((format!("(!({a} | lit2) ~ ANY)* ~ \"x\" ~ {a}?"), "skip"));
        for b in &strs {
            v.push((format!("(!({a} | {b}) ~ ANY)*"), "skip"));
            v.push((format!("(!({a} | {b}) ~ ANY)* ~ ({a} | {b})"), "skip"));
            for c in &strs {
                v.push((format!("(!({a} | {b} | {c}) ~ ANY)*"), "skip"));
                v.push((format!("\"a\"? ~ (!({a} | {b} | {c}) ~ ANY)* ~ ANY?"), "skip"));
            }
        }
    }
    // near-redexes of the skipper: the same body under every other repetition operator, and bodies
    // one step away from the shape (a pass that fires on them is wrong)
    for a in &strs {
        for rep in ["+", "?", "{2}", "{1,}", "{,2}", "{1,2}"] {
            v.push((format!("(!{a} ~ ANY){rep}"), "skip"));
            v.push((format!("(!{a} ~ ANY){rep} ~ {a}"), "skip"));
            v.push((format!("(!({a} | \"b\") ~ ANY){rep} ~ ANY?"), "skip"));
        }
        v.push((format!("(!{a} ~ ANY) ~ ANY?"), "skip"));
        v.push((format!("(ANY ~ !{a})*"), "skip"));
        v.push((format!("(&{a} ~ ANY)*"), "skip"));
        v.push((format!("(!{a} ~ 'a'..'b')*"), "skip"));
        v.push((format!("(!{a} ~ ANY ~ ANY)*"), "skip"));
        v.push((format!("(!{a} ~ !\"b\" ~ ANY)*"), "skip"));
    }
    v.push(("(!(\"a\" | \"b\" | \"ab\" | \"x\") ~ ANY)*".to_string(), "skip"));
    v.push(("(!(lit | lit2) ~ ANY)*".to_string(), "skip"));
    // concatenator
    for (a, b) in [("\"a\"", "\"b\""), ("^\"a\"", "^\"b\""), ("\"a\"", "^\"b\""), ("^\"a\"", "\"b\""), ("\"\"", "\"a\"")] {
        v.push((format!("{a} ~ {b}"), "concat"));
        v.push((format!("{a} ~ {b} ~ {a}"), "concat"));
        v.push((format!("({a} ~ {b})*"), "concat"));
        v.push((format!("({a} ~ {b}) | {a}"), "concat"));
    }
    v
}

/// Extra rules some redex bodies refer to.
pub const REDEX_EXTRA_RULES: &str = " lit = _{ \"a\" | \"ab\" } lit2 = { \"b\" } nas = !{ \"a\" ~ \"b\" } ";

/// Stack-transaction slice: a push before a choice; inside the first alternative a *successful*
/// group that pushes again and contains a *successful nested* group popping across both pushes
/// (a cleared snapshot merged into a parent that owns only some of the popped elements); then a
/// failure; then an alternative that reads the stack.
pub fn stack_transaction_bodies() -> Vec<String> {
    let nested = ["d2", "p2", "dp", "(DROP ~ DROP)?", "(POP ~ POP)?", "(DROP ~ POP)*", "(DROP ~ DROP | \"x\")", "(DROP ~ PEEK ~ DROP)?", "DROP ~ DROP", "POP", "DROP"];
    let mut v = vec![];
    for x in ["\"a\"", "\"b\""] {
        for y in ["\"a\"", "\"b\""] {
            let mut mids: Vec<String> = vec![];
            for n in &nested {
                mids.push(format!("(PUSH({y}) ~ {n})?"));
                mids.push(format!("(PUSH({y}) ~ {n})*"));
                mids.push(format!("(PUSH({y}) ~ {n} | \"x\")"));
                mids.push(format!("PUSH({y}) ~ {n}"));
                mids.push(format!("(PUSH({y}) ~ PUSH({x}) ~ {n})?"));
            }
            for q in ["q1", "q2", "q3", "q4"] {
                mids.push(q.to_string());
            }
            for m in &mids {
                for z in ["\"x\"", "\"a\"", "!ANY"] {
                    for rest in ["PEEK", "POP ~ \"a\"", "\"b\" ~ PEEK", "PEEK_ALL", "PEEK[0..1] ~ ANY", "\"a\" ~ POP_ALL"] {
                        v.push(format!("PUSH({x}) ~ (({m} ~ {z}) | {rest})"));
                    }
                }
                v.push(format!("PUSH({x}) ~ ({m} ~ \"x\")? ~ PEEK"));
                v.push(format!("PUSH({x}) ~ ({m} ~ \"x\")* ~ POP_ALL"));
                v.push(format!("PUSH({x}) ~ !({m} ~ \"x\") ~ PEEK"));
            }
        }
    }
    v
}
pub const STACK_TX_EXTRA_RULES: &str = " d2 = _{ DROP ~ DROP } p2 = _{ POP ~ POP } dp = _{ DROP ~ POP } q1 = _{ PUSH(\"b\") ~ d2 } q2 = _{ PUSH(\"b\") ~ p2 } q3 = _{ PUSH(\"a\") ~ dp } q4 = { PUSH(\"b\") ~ PUSH(\"a\") ~ d2 ~ DROP } ";

/// Many-rules slice (C08 / C15): bodies over references to a family of small rules of every
/// modifier, so that several reportable rules are tried at the same position, nested to depth 3.
pub const MANY_RULES_EXTRA: &str = " a = { \"a\" } b = { \"b\" } c = { a ~ b } d = _{ a | b } e = @{ \"a\" ~ \"b\" } f = ${ b ~ a? } g = { !a ~ ANY } many = { a | b | c | e | g } mid = { many ~ \"!\" } top = { a | b | mid } h = @{ hh ~ \"!\"? } hh = { f ~ a? } i = ${ ii } ii = { n ~ a? } n = !{ b ~ a? } p = @{ pp } pp = { a ~ n? ~ f* } q = ${ a ~ (n | b)? } ";
pub fn many_rules_bodies(max: usize) -> Vec<String> {
    let leaves = ["a", "b", "c", "d", "e", "f", "g", "many", "mid", "top", "h", "i", "\"a\"", "\"!\""];
    let unary = [("(", ")?"), ("(", ")*"), ("!(", ")"), ("&(", ")")];
    let mut v: Vec<String> = bodies_by_size(&leaves, &unary, max).into_iter().flatten().collect();
    // mode switches swallowed by ? / * / | three rules deep
    for x in ["p", "q"] {
        for b in [format!("{x}"), format!("({x})?"), format!("({x})* ~ a?"), format!("{x} ~ {x}"), format!("!({x}) ~ ANY"), format!("a ~ ({x} | b)")] {
            v.push(b);
        }
    }
    // nested predicates with token-producing rules before / after the inner one
    let rl = ["a", "b", "c", "d", "e", "g"];
    for p1 in ["&", "!"] {
        for p2 in ["&", "!"] {
            for x in rl {
                for y in rl {
                    v.push(format!("{p1}({p2}{x} ~ {y}) ~ {y}"));
                    v.push(format!("{p1}({p2}{x} ~ {y})"));
                    v.push(format!("{p1}(({p2}{x})? ~ {y}) ~ ANY"));
                    v.push(format!("{p1}({y} ~ {p2}{x} ~ {y}) ~ {y}?"));
                    v.push(format!("({p1}({p2}{x} ~ {y}) ~ {y})*"));
                }
            }
        }
    }
    v
}

/// Wide families (C08 and friends): the same small shapes at widths that cross typical
/// capacity / threshold constants (4, 8, 16, 20, 30, 32, 33, 40).
pub fn wide_grammars() -> Vec<String> {
    let mut v = vec![];
    for n in [2usize, 4, 5, 8, 12, 16, 20, 24, 31, 32, 33, 40] {
        let rules: String = (0..n).map(|i| format!("k{i} = {{ \"{i}\" }} ")).collect();
        let alts: Vec<String> = (0..n).map(|i| format!("k{i}")).collect();
        // n distinct rules tried at one position
        v.push(format!("{rules}r = {{ \"a\"? ~ ({}) ~ EOI }}", alts.join(" | ")));
        // n alternatives that each retry the same three rules
        let retry: Vec<String> = (0..n).map(|i| format!("(a | b | c) ~ \"{i}\"")).collect();
        v.push(format!("a = {{ \"a\" }} b = {{ \"b\" }} c = {{ a ~ b }} z = {{ \"z\" }} r = {{ {} }} top = _{{ z | r }}", retry.join(" | ")));
        // n rules under negation
        let negs: Vec<String> = (0..n).map(|i| format!("!k{i}")).collect();
        v.push(format!("{rules}r = {{ {} ~ \"b\" }}", negs.join(" ~ ")));
        // nesting depth n
        let mut nest = String::from("\"a\"");
        let mut nrules = String::new();
        for i in 0..n.min(24) {
            nrules.push_str(&format!("n{i} = {{ {} }} ", if i == 0 { nest.clone() } else { format!("n{} ~ \"b\"?", i - 1) }));
            nest = format!("n{i}");
        }
        v.push(format!("{nrules}r = {{ {nest} ~ \"a\" }}"));
    }
    v
}

/// Built-in rules slice: every ASCII built-in and NEWLINE/ANY/SOI/EOI, alone, under ?, *, !, and
/// in pairs, on inputs over a class-boundary alphabet.
pub fn builtin_bodies() -> Vec<String> {
    let leaves = ["ASCII_DIGIT", "ASCII_NONZERO_DIGIT", "ASCII_BIN_DIGIT", "ASCII_OCT_DIGIT", "ASCII_HEX_DIGIT", "ASCII_ALPHA_LOWER", "ASCII_ALPHA_UPPER", "ASCII_ALPHA", "ASCII_ALPHANUMERIC", "ASCII", "NEWLINE", "ANY", "SOI", "EOI", "LETTER", "UPPERCASE_LETTER"];
    let unary = [("(", ")?"), ("(", ")*"), ("!(", ")"), ("(", ")+")];
    bodies_by_size(&leaves, &unary, 3).into_iter().flatten().collect()
}
/// User rules that carry the names of non-keyword built-ins (the user's definition is the rule).
pub fn shadowed_builtin_grammars() -> Vec<String> {
    let leaves = ["NEWLINE", "ASCII_DIGIT", "LETTER", "\"a\"", "ANY"];
    let unary = [("(", ")?"), ("(", ")*"), ("!(", ")"), ("(", ")+"), ("&(", ")")];
    let mut v = vec![];
    for defs in [
        "NEWLINE = { \"b\" } ASCII_DIGIT = _{ \"a\"? } LETTER = @{ \"a\" ~ \"b\" }",
        "NEWLINE = ${ \"a\" ~ LETTER? } ASCII_DIGIT = !{ \"b\" ~ \"a\" } LETTER = { ASCII_DIGIT | \"b\" }",
    ] {
        for ws in ["", "WHITESPACE = _{ \" \" } "] {
            for ty in ["", "@"] {
                for b in bodies_by_size(&leaves, &unary, 3).into_iter().flatten() {
                    v.push(format!("{ws}{defs} r = {ty}{{ {b} }}"));
                }
                // the optimizer's idioms around a name the grammar has redefined
                for n in ["NEWLINE", "ASCII_DIGIT", "LETTER"] {
                    for b in [format!("(!{n} ~ ANY)*"), format!("(!({n} | \"1\") ~ ANY)* ~ {n}?"), format!("(!(\"1\" | {n}) ~ ANY)* ~ ANY?"), format!("({n} ~ \"a\")* ~ {n}"), format!("({n} ~ \"a\") | {n}")] {
                        v.push(format!("{ws}{defs} r = {ty}{{ {b} }}"));
                    }
                }
            }
        }
    }
    v
}
/// Long literals and long stack entries: tokens whose byte length sits around the powers of two
/// (15..18, 31..34, ... 255..258), made of 1-, 2-, 3- and 4-byte characters so that a character
/// straddles every such byte offset; inputs are the token, the token followed by more text, the
/// token doubled, and the token with its last character replaced.
pub fn long_token_cases() -> (Vec<String>, Vec<String>) {
    let mut grammars = vec![];
    let mut inputs: Vec<String> = vec!["".into(), "x".into()];
    for unit in ["a", "\u{e9}", "\u{20ac}", "\u{1f600}"] {
        for target in [16usize, 32, 64, 128, 256] {
            for delta in [-1i64, 0, 1, 2] {
                let bytes = (target as i64 + delta) as usize;
                // unit repeated, padded in front with ASCII so that the total is exactly `bytes`
                let k = bytes / unit.len();
                let pad = bytes - k * unit.len();
                let tok = format!("{}{}", "b".repeat(pad), unit.repeat(k));
                if delta == 0 || delta == 1 {
                    grammars.push(format!("r = {{ \"{tok}\" ~ \"x\"? }} s = {{ ^\"{tok}\" | \"x\" }}"));
                }
                let mut cut = tok.clone();
                cut.pop();
                inputs.push(format!("{tok}x"));
                inputs.push(format!("{tok}{tok}"));
                inputs.push(format!("{cut}x"));
                inputs.push(tok);
            }
        }
    }
    // long stack entries: the pushed text is as long as the input allows
    grammars.push("r = { PUSH((!\"x\" ~ ANY)*) ~ \"x\" ~ POP ~ \"x\"? } s = { PUSH((!\"x\" ~ ANY)+) ~ \"x\" ~ PEEK ~ PEEK[..] }".to_string());
    grammars.push("r = @{ PUSH((!\"x\" ~ ANY)*) ~ \"x\" ~ (POP | \"x\") } s = { (!\"x\" ~ ANY)* ~ \"x\" }".to_string());
    inputs.sort();
    inputs.dedup();
    (grammars, inputs)
}
/// Adjacent literals of every case-sensitivity and letter content (what the concatenator may fold).
pub fn literal_pair_bodies() -> Vec<String> {
    // ... and non-letters that differ by 0x20 from an input character ('-' / CR, '[' / '{'), and
    // non-ASCII cased letters (case-insensitivity is ASCII-only)
    let lits = ["\"a\"", "^\"a\"", "\"A\"", "^\"A\"", "\"-\"", "^\"-\"", "\"a-\"", "^\"-a\"", "^\"[a\"", "^\"\u{c9}\"", "\"\u{e9}\""];
    let mut v = vec![];
    for a in lits {
        for b in lits {
            v.push(format!("{a} ~ {b}"));
            v.push(format!("({a} ~ {b})* ~ ANY?"));
        }
        v.push(format!("{a} ~ ANY?"));
    }
    v
}
/// Node tags set inside sequences that fail and are absorbed (grammar-extras).
pub fn tagged_failure_bodies() -> Vec<String> {
    let mut v = vec![];
    if cfg!(feature = "extras") {
        for t in ["#t = \"a\"", "#t = (\"a\"?)", "#t = s", "(#t = \"a\") ~ (#u = \"\")"] {
            for tail in ["\"b\"", "\"x\"", "s"] {
                v.push(format!("s ~ ({t} ~ {tail})?"));
                v.push(format!("s ~ ({t} ~ {tail} | \"a\")"));
                v.push(format!("s ~ ({t} ~ {tail})* ~ ANY?"));
                v.push(format!("s ~ !({t} ~ {tail}) ~ ANY?"));
            }
        }
    }
    v
}
pub const BUILTIN_ALPHA: &[char] = &['F', 'g', '0', '8', '\n', '\r', 'é', '\u{7f}', '\u{feff}'];

/// WHITESPACE / COMMENT bodies of every small shape and modifier (whole grammars).
pub fn special_body_grammars() -> Vec<String> {
    let by = bodies_by_size(PLAIN_LEAVES, &UNARY[..9], 2);
    let mut v = vec![];
    for special in ["WHITESPACE", "COMMENT"] {
        for m in ["_", "", "@", "$", "!"] {
            // sequences / choices / repetitions of two elements (the implicit skip *inside* the special rule)
            let mut two: Vec<String> = vec![];
            for x in ["\"a\"?", "\"a\"", "\"x\"", "s"] {
                for y in ["\"b\"", "\"x\"", "\"a\"*"] {
                    two.push(format!("{x} ~ {y}"));
                    two.push(format!("{x} | {y}"));
                    two.push(format!("({x} ~ {y})+"));
                }
            }
            for b in by.iter().flatten().chain(two.iter()) {
                v.push(format!("{special} = {m}{{ {b} }} s = {{ \"b\" }} r = {{ \"a\" ~ \"b\" ~ (\"a\" | s)* }}"));
                v.push(format!("{special} = {m}{{ {b} }} s = ${{ \"b\" ~ \"a\" }} r = !{{ (s ~ \"a\"?)+ }} top = @{{ r ~ \"b\" }}"));
            }
        }
    }
    v
}
