//! C01 — parsing conforms to the documented PEG semantics: S_doc on the unoptimized AST
//! versus the real VM on `parse_and_optimize`'s output, for every grammar x start x input.
use crate::corpus::Prepared;
use crate::model::{run_model, Gm, MOut};
use crate::passes;
use crate::real::{run_vm, Real};
use vcore::verdict::Known;
use vcore::{json, Stats, Value};

pub fn agrees(m: &MOut, r: &Real) -> bool {
    match (m, r) {
        (MOut::Match { toks, .. }, Real::Ok { toks: rt }) => toks == rt,
        (MOut::Fail, Real::Err { custom: None, .. }) => true,
        (MOut::Panics, Real::Panic(msg)) => msg.contains("called on empty stack"),
        _ => false,
    }
}

pub fn mout_json(m: &MOut) -> Value {
    match m {
        MOut::Match { pos, toks, stack } => json!({"match": {"consumed": pos, "tokens": toks_json(toks), "stack": stack}}),
        MOut::Fail => json!("fail"),
        MOut::Diverges { capped } => json!({"diverges": {"capped": capped}}),
        MOut::Panics => json!("documented-panic"),
    }
}
pub fn toks_json(t: &[(bool, String, usize)]) -> Value {
    json!(t.iter().map(|(s, r, p)| format!("{}{}@{}", if *s { "<" } else { ">" }, r, p)).collect::<Vec<_>>().join(" "))
}
pub fn real_json(r: &Real) -> Value {
    match r {
        Real::Ok { toks } => json!({"ok": {"tokens": toks_json(toks)}}),
        Real::Err { pos, positives, negatives, custom } => json!({"err": {"pos": pos, "positives": positives, "negatives": negatives, "custom": custom}}),
        Real::Panic(m) => json!({"panic": m}),
    }
}

/// Which optimizer pass (if any) first changes the model's verdict on this case, and does the
/// model on the fully rewritten AST agree with what the real engine did?
pub fn attribute(st: &[Gm], rule: &str, input: &str, real: &Real) -> (Option<&'static str>, bool) {
    let m0 = run_model(&st[0], rule, input);
    let mut first = None;
    let mut last = m0.clone();
    for i in 1..=6 {
        last = run_model(&st[i], rule, input);
        if last != m0 && first.is_none() {
            first = Some(passes::PASS_NAMES[i - 1]);
        }
    }
    (first, agrees(&last, real))
}

/// The seven stages of the pass pipeline as model grammars (built once per grammar, on demand).
pub fn stage_models(p: &Prepared) -> Vec<Gm> {
    passes::stages(&p.ast).iter().map(|r| Gm::new(r)).collect()
}

pub fn nontrivial(r: &Real) -> bool {
    match r {
        Real::Ok { toks } => toks.iter().any(|t| t.2 > 0) || !toks.is_empty(),
        Real::Err { pos, .. } => *pos > 0,
        Real::Panic(_) => true,
    }
}

pub fn check_grammar(p: &Prepared, known: &Known, stats: &mut Stats) {
    let mut any = false;
    let mut stage_gms: Option<Vec<Gm>> = None;
    for start in &p.starts {
        for input in p.inputs.iter() {
            let m = run_model(&p.gm, start, input);
            if let MOut::Diverges { capped } = m {
                stats.inc(if capped { "excluded.model-capped" } else { "excluded.model-diverges" });
                continue;
            }
            let r = run_vm(&p.vm, start, input);
            stats.inc("evaluations");
            let moved = match &m {
                MOut::Match { pos, toks, .. } => *pos > 0 || !toks.is_empty(),
                _ => nontrivial(&r),
            };
            if moved {
                stats.inc("distinct_nontrivial");
            }
            stats.inc(match &m {
                MOut::Match { .. } => "model.match",
                MOut::Fail => "model.fail",
                MOut::Panics => "model.documented-panic",
                _ => unreachable!(),
            });
            if !any {
                any = true;
                if stats.samples.len() < 2 || (stats.get("grammars_accepted") % 5000 == 0) {
                    stats.sample(|| json!({"grammar": p.text, "rule": start, "input": input, "model": mout_json(&m), "real": real_json(&r)}));
                }
            }
            if agrees(&m, &r) {
                if let MOut::Match { toks, .. } = &m {
                    stats.outcome(&format!("match:{}toks", toks.len().min(8)));
                } else {
                    stats.outcome(r.class());
                }
                continue;
            }
            // disagreement: classify
            let (pass, rewritten_agrees) = attribute(stage_gms.get_or_insert_with(|| stage_models(p)), start, input, &r);
            let case = json!({
                "kind": "real-differs-from-documented-semantics",
                "slice": p.label, "grammar": p.text, "rule": start, "input": input,
                "expected(S_doc on unoptimized AST)": mout_json(&m), "actual(VM on optimized rules)": real_json(&r),
                "first_pass_changing_the_meaning": pass, "model_on_rewritten_ast_agrees_with_real": rewritten_agrees,
                "features": if cfg!(feature = "extras") { "grammar-extras" } else { "default" },
            });
            let mut preds: Vec<String> = vec![];
            if pass == Some("list") && rewritten_agrees {
                preds.push("lister-rewrite".into());
            }
            match known.first_open("C01", &preds) {
                Some(pred) => stats.known(pred, || case.clone()),
                None => stats.violation_class(&format!("{}.{}", pass.unwrap_or("no-pass"), if rewritten_agrees { "rewritten-model-agrees" } else { "rewritten-model-disagrees" }), case),
            }
        }
    }
}

pub fn replay(case: &Value) -> bool {
    let text = case["grammar"].as_str().unwrap();
    let rule = case["rule"].as_str().unwrap();
    let input = case["input"].as_str().unwrap();
    let crate::corpus::Prep::Ok(p) = crate::corpus::prepare(text, "replay", std::rc::Rc::new(vec![input.to_string()]), vec![rule.to_string()]) else {
        println!("replay: pest no longer accepts the grammar");
        return true;
    };
    let m = run_model(&p.gm, rule, input);
    let r = run_vm(&p.vm, rule, input);
    println!("grammar: {text}\nrule: {rule}\ninput: {input:?}\nexpected: {}\nactual:   {}", mout_json(&m), real_json(&r));
    matches!(m, MOut::Diverges { .. }) || agrees(&m, &r)
}
