//! Explorer for the properties decided against the `S_doc` reference semantics
//! (C01, C05, C06, C08, C12, C15). One binary per feature configuration (`sdoc` = default,
//! `sdocx` = grammar-extras); the parent (`sdoc`) runs worker pools of both and merges.
mod c01;
mod c04;
#[path = "../../c04/src/views.rs"]
mod views;
mod c05;
mod c06;
mod c08;
mod c12;
mod c15;
mod corpus;
mod gram;
mod model;
mod passes;
mod real;

use vcore::pool::{self, PoolOpts, Worker};
use vcore::verdict::{self, Known};
use vcore::{json, Cfg, Stats};

fn prop(cfg: &Cfg) -> String {
    cfg.opt("--prop").unwrap_or_else(|| {
        eprintln!("usage: sdoc --prop=C01|C05|C06|C08|C12|C15 [--tier quick|thorough] [--replay file]");
        std::process::exit(2)
    })
}

fn worker_main(cfg: &Cfg, mut w: Worker) -> ! {
    vcore::quiet_panics();
    let known = Known::load();
    let mut stats = Stats::new();
    let scale = cfg.opt("--scale").and_then(|s| s.parse().ok()).unwrap_or(0);
    match prop(cfg).as_str() {
        "C01" => {
            let slices = corpus::standard(cfg.quick(), scale);
            corpus::for_each_grammar(&slices, &mut w, &mut stats, |p, st| c01::check_grammar(p, &known, st));
        }
        "C04" => {
            // the corpus C01 uses, one scale step down (distinct trees are checked once); in the quick
            // tier the optimizer-redex slice on one plane + axis of the frame cube (as for C15)
            let slices = corpus::standard(cfg.quick(), if cfg.quick() { scale - 2 } else { scale - 1 });
            let mut seen = std::collections::HashSet::new();
            corpus::for_each_grammar(&slices, &mut w, &mut stats, |p, st| c04::check_grammar(p, &known, st, &mut seen));
            stats.add("distinct_parse_trees", seen.len() as u64);
        }
        "C05" => {
            let slices = corpus::standard(cfg.quick(), scale - 1);
            corpus::for_each_grammar(&slices, &mut w, &mut stats, |p, st| c05::check_grammar(p, &known, st));
        }
        "C06" => c06::run(cfg.quick(), &mut w, &known, &mut stats),
        "C08" => {
            let slices = corpus::standard(cfg.quick(), scale);
            corpus::for_each_grammar(&slices, &mut w, &mut stats, |p, st| c08::check_grammar(p, &known, st));
        }
        "C12" => {
            let slices = corpus::small(cfg.quick());
            let max_calls = if cfg.quick() { 60 } else { 400 };
            corpus::for_each_grammar(&slices, &mut w, &mut stats, |p, st| c12::check_grammar(p, &known, st, max_calls));
        }
        "C15" => {
            let slices = corpus::standard(cfg.quick(), if cfg.quick() { scale - 2 } else { scale - 1 });
            corpus::for_each_grammar(&slices, &mut w, &mut stats, |p, st| c15::check_grammar(p, &known, st));
        }
        o => {
            eprintln!("unknown property {o}");
            std::process::exit(2)
        }
    }
    w.finish(stats)
}

fn main() {
    let cfg = Cfg::from_env();
    if cfg.has("--confirm-child") {
        c06::confirm_child_main();
    }
    if let Some(w) = Worker::from_env() {
        worker_main(&cfg, w);
    }
    let property = prop(&cfg);
    if let Some(path) = &cfg.replay {
        vcore::quiet_panics();
        let case = verdict::load_replay(path);
        let extras_case = case["features"].as_str() == Some("grammar-extras");
        if extras_case != cfg!(feature = "extras") {
            // hand over to the binary built with the right features
            let other = std::env::current_exe().unwrap().with_file_name(if extras_case { "sdocx" } else { "sdoc" });
            let st = std::process::Command::new(other).args(std::env::args().skip(1)).status().expect("spawn");
            std::process::exit(st.code().unwrap_or(2));
        }
        let ok = match property.as_str() {
            "C01" => c01::replay(&case),
            "C05" => c05::replay(&case),
            "C06" => c06::replay(&case),
            "C08" => c08::replay(&case),
            "C12" => c12::replay(&case),
            "C15" => c15::replay(&case),
            _ => true,
        };
        if ok {
            println!("replay: property holds on this case");
            std::process::exit(0)
        }
        println!("VIOLATION property={property} replay={path}");
        std::process::exit(1)
    }
    // parent: pools for both feature configurations
    let mut stats = Stats::new();
    let me = std::env::current_exe().unwrap();
    let configs: Vec<(&str, std::path::PathBuf)> = vec![("default", me.with_file_name("sdoc")), ("grammar-extras", me.with_file_name("sdocx"))];
    for (name, exe) in configs {
        if cfg.opt("--only").map_or(false, |o| o != name) {
            continue;
        }
        if !exe.exists() {
            stats.failures.push(format!("binary for feature configuration {name} not built: {}", exe.display()));
            continue;
        }
        let mut opts = PoolOpts::new(cfg.jobs);
        opts.exe = Some(exe);
        opts.stall_secs = 30;
        let res = pool::run_pool(&opts);
        let mut s = res.stats;
        // a worker that hung or died on a case: that is a result about the case
        for (shard, d, case) in &res.deaths {
            s.violation(json!({"kind": "real-engine-did-not-return", "features": name, "shard": shard, "how": format!("{d:?}"), "grammar": case}));
        }
        let ev = s.get("evaluations");
        stats.add(&format!("evaluations.{name}"), ev);
        stats.merge(s);
    }
    if (property == "C12" || property == "C15") && !cfg.has("--vm-only") {
        // the generated back-end: the compiled C02 corpus, same oracle
        let c02 = me.with_file_name("c02");
        if c02.exists() {
            let out = std::process::Command::new(&c02).args([&format!("--prop={property}"), "--tier", cfg.tier.name(), "--emit-stats"]).output().expect("run c02");
            let txt = String::from_utf8_lossy(&out.stdout);
            match txt.lines().find_map(|l| l.strip_prefix("@STATS ")).and_then(|j| j.parse::<vcore::Value>().ok()).and_then(|v| Stats::from_json(&v)) {
                Some(s) => {
                    stats.add("evaluations.generated-backend", s.get("evaluations"));
                    stats.merge(s);
                }
                None => stats.failures.push(format!("no statistics from the generated back-end run: {}", txt.lines().last().unwrap_or(""))),
            }
        } else {
            stats.failures.push(format!("binary missing: {}", c02.display()));
        }
    }
    if cfg.has("--emit-stats") {
        println!("@STATS {}", stats.to_json());
        return;
    }
    let (level, rule, assumptions): (&str, &str, Vec<String>) = match property.as_str() {
        "C01" => (
            "exploration",
            "grammars = frame (WHITESPACE/COMMENT set-up x rule modifier x callee rule) x expression trees by size over 20 leaves / 10 unary / 2 binary operators, plus rewrite-redex slices; every accepted grammar x start rule x every input up to the length bound over the grammar's alphabet; model = S_doc on the unoptimized AST, real = pest_vm on parse_and_optimize output; compared: match/fail/documented panic and the full token stream. Distinct: grammar texts are de-duplicated, inputs enumerated without repetition. Non-trivial: the run consumed input, emitted a token or failed beyond offset 0",
            vec!["S_doc clauses M1-M14 of DESIGN.md are the reading of the prose".into(), "cases the model classifies as diverging/capped are not executed (C06 owns them)".into(), "bounded: expression size, input length, two feature configurations".into()],
        ),
        "C05" => (
            "translation_validation",
            "program = a rule set rewritten by one optimizer pass alone, by a pipeline prefix, or by restore_on_err (grammars no pass touches are skipped and counted); each program is validated against the written grammar on every start rule x every input up to the length bound: layers 1-2 compare S_doc before/after the rewrite (consumed length, token stream, final stack), layer 3 runs the real VM on optimize(G). A disagreement is 'checked' when it has been attributed to a pass and either matched to a known finding or reported",
            vec!["S_doc (incl. its reading of Skip) is the semantics both sides are judged by".into(), "bounded: expression size, input length".into(), "optimize() == composition of the exposed passes is itself checked per grammar".into()],
        ),
        "C08" => (
            "exploration",
            "every failing (grammar, start rule, input) of the shared corpus on the VM back-end (the generated back-end is compared with the VM in C02, which includes error position and both lists); oracle = attempt forest of S_doc on the optimized rules: furthest reportable attempt position, every listed rule attempted exactly there with the right polarity, strictly ascending lists, and the collapse rule as an equality with the fold of DESIGN Appendix B. Non-trivial: the failure position is beyond offset 0 or more than one rule is listed",
            vec!["reportable = non-silent rule (or EOI) whose own rule() runs outside Atomic mode".into(), "acceptance disagreements are left to C01".into()],
        ),
        "C12" => (
            "exploration",
            "for every (grammar, start rule, input) of the small corpus (all frames, expression size <= 2 everywhere and <= 3 in the plain frames, redex slices): the unlimited result, the exact number of calls C counted by the call tracker (hook H2), then every limit 1..=C+1 on the VM back-end; each limited result must equal the unlimited one or be the 'call limit reached' error, and the set of limits that complete must be upward closed. Distinct: (case, limit) pairs; non-trivial: 1 < limit <= C (the limit bites somewhere inside the parse)",
            vec!["process-global call limit is owned by single-threaded worker processes".into(), "cases needing more calls than the tier's cap are counted and skipped".into()],
        ),
        "C15" => (
            "exploration",
            "every (grammar, start rule, input) of the shared corpus is parsed twice on the VM back-end, with set_error_detail(false) and (true); results must be identical (tokens, or error position and both lists, or the same documented panic); with detail on, the recorded attempts must name a character-boundary position inside the input, expected_tokens/unexpected_tokens/call_stacks must be readable and parse_attempts_error must render. Non-trivial: the parse fails or emits at least one token",
            vec!["process-global detail switch is owned by single-threaded worker processes".into(), "cases the model classifies as diverging are not executed".into()],
        ),
        "C06" => (
            "exploration",
            "stack-free grammars: every operator context (25, nested to depth 2) around a leftmost reference closing a cycle of length 1, 2 or 3 through rules of every modifier; WHITESPACE/COMMENT bodies of every small shape and self/mutually-referential specials; the plain size-ordered corpus; acyclic controls. Soundness: for every accepted grammar, every rule x every input up to the bound is evaluated by S_doc, whose divergence detection is exact for stack-free grammars (re-entering an active (rule, position, mode); an iteration without progress); each model divergence is confirmed by running the real VM in a child process (4 MiB stack, 2 GiB memory, 10 s). Completeness: every grammar satisfying the syntactic `guarded` predicate of DESIGN Appendix C must be accepted. Non-trivial: accepted grammar, real engine executed and returned, outcome other than failure on the empty input",
            vec!["S_doc's cycle criterion is exact only for stack-free grammars (as the property states)".into(), "a model divergence the real engine does not exhibit (optimizer removed the cycle) is counted, not reported".into()],
        ),
        _ => ("exploration", "", vec![]),
    };
    let mut cov = vcore::Map::new();
    cov.insert("rule".into(), json!(rule));
    if property == "C05" {
        cov.insert("programs".into(), json!(stats.get("programs")));
        cov.insert("disagreements_checked".into(), json!(stats.get("disagreements_checked")));
    }
    verdict::conclude(verdict::Report { property: &property, level, cfg: &cfg, stats, coverage: cov, assumptions })
}
