//! Explorer for the properties decided against the `S_doc` reference semantics
//! (C01, C05, C06, C08, C12, C15). One binary per feature configuration (`sdoc` = default,
//! `sdocx` = grammar-extras); the parent (`sdoc`) runs worker pools of both and merges.
mod c01;
mod corpus;
mod gram;
mod model;
mod passes;
mod real;

use vcore::pool::{self, PoolOpts, Worker};
use vcore::verdict::{self, Known};
use vcore::{json, Cfg, Stats};

fn prop(cfg: &Cfg) -> String {
    cfg.opt("--prop").unwrap_or_else(|| {
        eprintln!("usage: sdoc --prop=C01|C05|C06|C08|C12|C15 [--tier quick|thorough] [--replay file]");
        std::process::exit(2)
    })
}

fn worker_main(cfg: &Cfg, mut w: Worker) -> ! {
    vcore::quiet_panics();
    let known = Known::load();
    let mut stats = Stats::new();
    let scale = cfg.opt("--scale").and_then(|s| s.parse().ok()).unwrap_or(0);
    match prop(cfg).as_str() {
        "C01" => {
            let slices = corpus::standard(cfg.quick(), scale);
            corpus::for_each_grammar(&slices, &mut w, &mut stats, |p, st| c01::check_grammar(p, &known, st));
        }
        o => {
            eprintln!("unknown property {o}");
            std::process::exit(2)
        }
    }
    w.finish(stats)
}

fn main() {
    let cfg = Cfg::from_env();
    if let Some(w) = Worker::from_env() {
        worker_main(&cfg, w);
    }
    let property = prop(&cfg);
    if let Some(path) = &cfg.replay {
        vcore::quiet_panics();
        let case = verdict::load_replay(path);
        let extras_case = case["features"].as_str() == Some("grammar-extras");
        if extras_case != cfg!(feature = "extras") {
            // hand over to the binary built with the right features
            let other = std::env::current_exe().unwrap().with_file_name(if extras_case { "sdocx" } else { "sdoc" });
            let st = std::process::Command::new(other).args(std::env::args().skip(1)).status().expect("spawn");
            std::process::exit(st.code().unwrap_or(2));
        }
        let ok = match property.as_str() {
            "C01" => c01::replay(&case),
            _ => true,
        };
        if ok {
            println!("replay: property holds on this case");
            std::process::exit(0)
        }
        println!("VIOLATION property={property} replay={path}");
        std::process::exit(1)
    }
    // parent: pools for both feature configurations
    let mut stats = Stats::new();
    let me = std::env::current_exe().unwrap();
    let configs: Vec<(&str, std::path::PathBuf)> = vec![("default", me.with_file_name("sdoc")), ("grammar-extras", me.with_file_name("sdocx"))];
    for (name, exe) in configs {
        if cfg.opt("--only").map_or(false, |o| o != name) {
            continue;
        }
        if !exe.exists() {
            stats.failures.push(format!("binary for feature configuration {name} not built: {}", exe.display()));
            continue;
        }
        let mut opts = PoolOpts::new(cfg.jobs);
        opts.exe = Some(exe);
        opts.stall_secs = 30;
        let res = pool::run_pool(&opts);
        let mut s = res.stats;
        // a worker that hung or died on a case: that is a result about the case
        for (shard, d, case) in &res.deaths {
            s.violation(json!({"kind": "real-engine-did-not-return", "features": name, "shard": shard, "how": format!("{d:?}"), "grammar": case}));
        }
        let ev = s.get("evaluations");
        stats.add(&format!("evaluations.{name}"), ev);
        stats.merge(s);
    }
    let (level, rule, assumptions): (&str, &str, Vec<String>) = match property.as_str() {
        "C01" => (
            "exploration",
            "grammars = frame (WHITESPACE/COMMENT set-up x rule modifier x callee rule) x expression trees by size over 20 leaves / 10 unary / 2 binary operators, plus rewrite-redex slices; every accepted grammar x start rule x every input up to the length bound over the grammar's alphabet; model = S_doc on the unoptimized AST, real = pest_vm on parse_and_optimize output; compared: match/fail/documented panic and the full token stream. Distinct: grammar texts are de-duplicated, inputs enumerated without repetition. Non-trivial: the run consumed input, emitted a token or failed beyond offset 0",
            vec!["S_doc clauses M1-M14 of DESIGN.md are the reading of the prose".into(), "cases the model classifies as diverging/capped are not executed (C06 owns them)".into(), "bounded: expression size, input length, two feature configurations".into()],
        ),
        _ => ("exploration", "", vec![]),
    };
    let mut cov = vcore::Map::new();
    cov.insert("rule".into(), json!(rule));
    verdict::conclude(verdict::Report { property: &property, level, cfg: &cfg, stats, coverage: cov, assumptions })
}
