//! C15 — detailed error tracking is observationally transparent.
use crate::c01::real_json;
use crate::corpus::Prepared;
use crate::model::{run_model, MOut};
use crate::real::{run_vm_tagged as run_vm, Real};
use vcore::verdict::Known;
use vcore::{json, Stats};

fn feat() -> &'static str {
    if cfg!(feature = "extras") {
        "grammar-extras"
    } else {
        "default"
    }
}

/// With detail on: inspect the extra information of a failing parse. Returns problems.
fn inspect_detail(p: &Prepared, rule: &str, input: &str) -> Result<(String, usize), String> {
    vcore::catch(|| {
        let e = match p.vm.parse(rule, input) {
            Err(e) => e,
            Ok(_) => return Ok(("ok".to_string(), 0)),
        };
        let Some(att) = e.parse_attempts() else {
            return Err("error produced with detail on carries no parse attempts".to_string());
        };
        let mp = att.max_position;
        if mp > input.len() || !input.is_char_boundary(mp) {
            return Err(format!("attempt position {mp} is not a character boundary inside the input (len {})", input.len()));
        }
        let exp = att.expected_tokens();
        let unexp = att.unexpected_tokens();
        let cs = att.call_stacks();
        let _ = format!("{exp:?}{unexp:?}{cs:?}");
        let rule_to_message: pest::error::RuleToMessageFn<&str> = Box::new(|r: &&str| Some(format!("rule {r}")));
        let is_ws: pest::error::IsWhitespaceFn = Box::new(|s: String| s == " ");
        let Some(help) = e.parse_attempts_error(input, &rule_to_message, &is_ws) else {
            return Err("parse_attempts_error returned None although attempts were recorded".to_string());
        };
        let rendered = format!("{help}");
        if rendered.is_empty() {
            return Err("help message rendered empty".to_string());
        }
        let _ = format!("{e}");
        Ok((format!("exp{}:unexp{}:stacks{}", exp.len().min(4), unexp.len().min(3), cs.len().min(4)), mp))
    })
    .unwrap_or_else(|panic| Err(format!("panicked: {panic}")))
}

pub fn check_grammar(p: &Prepared, _known: &Known, stats: &mut Stats) {
    let mut sampled = false;
    for start in &p.starts {
        for input in p.inputs.iter() {
            if let MOut::Diverges { .. } = run_model(&p.gm, start, input) {
                stats.inc("excluded.model-diverges-or-capped");
                continue;
            }
            pest::set_error_detail(false);
            let off = run_vm(&p.vm, start, input);
            pest::set_error_detail(true);
            let on = run_vm(&p.vm, start, input);
            let detail = if matches!(on, Real::Err { .. }) { Some(inspect_detail(p, start, input)) } else { None };
            pest::set_error_detail(false);
            stats.inc("evaluations");
            let nontrivial = matches!(off, Real::Err { .. }) || matches!(&off, Real::Ok { toks } if !toks.is_empty());
            if nontrivial {
                stats.inc("distinct_nontrivial");
            }
            if !sampled && (stats.samples.len() < 2 || stats.get("grammars_accepted") % 5000 == 0) {
                if let Some(Ok((d, mp))) = &detail {
                    sampled = true;
                    stats.sample(|| json!({"grammar": p.text, "rule": start, "input": input, "detail_off": real_json(&off), "detail_on": real_json(&on), "attempts": d, "attempts_max_position": mp}));
                }
            }
            // a documented empty-stack panic must be the same panic either way
            if off != on {
                stats.violation_class("result-differs", json!({"kind": "error-detail-changes-result", "grammar": p.text, "rule": start, "input": input, "detail_off": real_json(&off), "detail_on": real_json(&on), "features": feat()}));
                continue;
            }
            match detail {
                Some(Err(problem)) => {
                    let class = if problem.starts_with("panicked") { "detail-panics" } else { "detail-info-invalid" };
                    stats.violation_class(class, json!({"kind": "error-detail-information-unusable", "grammar": p.text, "rule": start, "input": input, "problem": problem, "features": feat()}));
                }
                Some(Ok((d, _))) => stats.outcome(&format!("err:{d}")),
                None => stats.outcome(on.class()),
            }
        }
    }
}

pub fn replay(case: &vcore::Value) -> bool {
    let text = case["grammar"].as_str().unwrap();
    let rule = case["rule"].as_str().unwrap();
    let input = case["input"].as_str().unwrap();
    let crate::corpus::Prep::Ok(p) = crate::corpus::prepare(text, "replay", std::rc::Rc::new(vec![input.to_string()]), vec![rule.to_string()]) else {
        println!("replay: pest no longer accepts the grammar");
        return true;
    };
    let mut st = Stats::new();
    check_grammar(&p, &Known::default(), &mut st);
    for v in &st.violations {
        println!("{v:#}");
    }
    st.get("violations") == 0
}
