//! The optimizer pipeline, pass by pass (hook H3: pest_meta::optimizer::verif).
use pest_meta::ast::{Expr, Rule};
use pest_meta::optimizer::{verif, OptimizedExpr as O, OptimizedRule};

pub const PASS_NAMES: [&str; 6] = ["rotate", "skip", "unroll", "concatenate", "factor", "list"];

pub fn apply_pass(i: usize, rules: &[Rule]) -> Vec<Rule> {
    rules
        .iter()
        .cloned()
        .map(|r| match i {
            0 => verif::rotate(r),
            1 => verif::skip(r, rules),
            2 => verif::unroll(r),
            3 => verif::concatenate(r),
            4 => verif::factor(r),
            5 => verif::list(r),
            _ => unreachable!(),
        })
        .collect()
}

/// Note: `optimize` runs all six passes rule by rule, with the skip pass looking at the
/// *original* rule map. `stages[i]` = rules after passes 0..i (stages[0] = input).
pub fn stages(rules: &[Rule]) -> Vec<Vec<Rule>> {
    let mut out = vec![rules.to_vec()];
    let mut cur = rules.to_vec();
    for i in 0..6 {
        cur = cur
            .into_iter()
            .map(|r| match i {
                0 => verif::rotate(r),
                1 => verif::skip(r, rules),
                2 => verif::unroll(r),
                3 => verif::concatenate(r),
                4 => verif::factor(r),
                5 => verif::list(r),
                _ => unreachable!(),
            })
            .collect();
        out.push(cur.clone());
    }
    out
}

/// OptimizedExpr -> Expr (RestoreOnErr is the identity for the model).
pub fn back(e: &O) -> Expr {
    let b = |x: &O| Box::new(back(x));
    match e {
        O::Str(s) => Expr::Str(s.clone()),
        O::Insens(s) => Expr::Insens(s.clone()),
        O::Range(a, b2) => Expr::Range(a.clone(), b2.clone()),
        O::Ident(i) => Expr::Ident(i.clone()),
        O::PeekSlice(a, b2) => Expr::PeekSlice(*a, *b2),
        O::PosPred(x) => Expr::PosPred(b(x)),
        O::NegPred(x) => Expr::NegPred(b(x)),
        O::Seq(x, y) => Expr::Seq(b(x), b(y)),
        O::Choice(x, y) => Expr::Choice(b(x), b(y)),
        O::Opt(x) => Expr::Opt(b(x)),
        O::Rep(x) => Expr::Rep(b(x)),
        O::Skip(v) => Expr::Skip(v.clone()),
        O::Push(x) => Expr::Push(b(x)),
        O::RestoreOnErr(x) => back(x),
        #[cfg(feature = "extras")]
        O::RepOnce(x) => Expr::RepOnce(b(x)),
        #[cfg(feature = "extras")]
        O::PushLiteral(s) => Expr::PushLiteral(s.clone()),
        #[cfg(feature = "extras")]
        O::NodeTag(x, t) => Expr::NodeTag(b(x), t.clone()),
    }
}

pub fn back_rules(opt: &[OptimizedRule]) -> Vec<Rule> {
    opt.iter().map(|r| Rule { name: r.name.clone(), ty: r.ty, expr: back(&r.expr) }).collect()
}

/// Independent bottom-up map over `Expr` (the harness' own traversal).
pub fn map_bu(e: Expr, f: &mut dyn FnMut(Expr) -> Expr) -> Expr {
    let mut b = |x: Box<Expr>, f: &mut dyn FnMut(Expr) -> Expr| Box::new(map_bu(*x, f));
    let m = match e {
        Expr::PosPred(x) => Expr::PosPred(b(x, f)),
        Expr::NegPred(x) => Expr::NegPred(b(x, f)),
        Expr::Seq(x, y) => {
            let x = b(x, f);
            let y = b(y, f);
            Expr::Seq(x, y)
        }
        Expr::Choice(x, y) => {
            let x = b(x, f);
            let y = b(y, f);
            Expr::Choice(x, y)
        }
        Expr::Opt(x) => Expr::Opt(b(x, f)),
        Expr::Rep(x) => Expr::Rep(b(x, f)),
        Expr::RepOnce(x) => Expr::RepOnce(b(x, f)),
        Expr::RepExact(x, n) => Expr::RepExact(b(x, f), n),
        Expr::RepMin(x, n) => Expr::RepMin(b(x, f), n),
        Expr::RepMax(x, n) => Expr::RepMax(b(x, f), n),
        Expr::RepMinMax(x, m, n) => Expr::RepMinMax(b(x, f), m, n),
        Expr::Push(x) => Expr::Push(b(x, f)),
        #[cfg(feature = "extras")]
        Expr::NodeTag(x, t) => Expr::NodeTag(b(x, f), t),
        e => e,
    };
    f(m)
}

/// The rewrite the repository pins for the list pass — `(x ~ y)* ~ x` => `x ~ (y ~ x)*` — written
/// independently. Used only to decide whether a meaning change of the `list` pass is *that* known
/// rewrite (known finding) or something else the pass did (violation).
pub fn ref_list(rules: &[Rule]) -> Vec<Rule> {
    rules
        .iter()
        .map(|r| Rule {
            name: r.name.clone(),
            ty: r.ty,
            expr: map_bu(r.expr.clone(), &mut |e| match e {
                Expr::Seq(l, r) => match *l {
                    Expr::Rep(inner) => match *inner {
                        Expr::Seq(l1, l2) if l1 == r => Expr::Seq(l1, Box::new(Expr::Rep(Box::new(Expr::Seq(l2, r))))),
                        other => Expr::Seq(Box::new(Expr::Rep(Box::new(other))), r),
                    },
                    other => Expr::Seq(Box::new(other), r),
                },
                e => e,
            }),
        })
        .collect()
}
