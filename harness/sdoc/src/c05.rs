//! C05 — optimizer passes preserve meaning. Three layers (DESIGN §3 C05):
//! (1) each pass alone, S_doc(G) == S_doc(p(G)); (2) each pipeline prefix;
//! (3) the whole pipeline including restore_on_err on the real engine.
use crate::c01::{agrees, mout_json, real_json};
use crate::corpus::Prepared;
use crate::model::{run_model, Gm, MOut};
use crate::passes::{self, PASS_NAMES};
use crate::real::run_vm;
use pest_meta::ast::Rule;
use pest_meta::optimizer::verif;
use vcore::verdict::Known;
use vcore::{json, Stats};

fn same(a: &MOut, b: &MOut) -> bool {
    a == b
}

fn rules_text(r: &[Rule]) -> String {
    r.iter().map(|r| format!("{} = {:?} {{ {:?} }}", r.name, r.ty, r.expr)).collect::<Vec<_>>().join("; ")
}

pub fn check_grammar(p: &Prepared, known: &Known, stats: &mut Stats) {
    let st = passes::stages(&p.ast);
    let alone: Vec<Vec<Rule>> = (0..6).map(|i| passes::apply_pass(i, &p.ast)).collect();
    let alone_changed: Vec<bool> = (0..6).map(|i| alone[i] != p.ast).collect();
    let stage_changed: Vec<bool> = (0..7).map(|i| i > 0 && st[i] != st[i - 1]).collect();
    // restore pass: compare the plain conversion of stage 6 with the real optimizer output
    let plain: Vec<_> = st[6].iter().cloned().map(verif::to_optimized).collect();
    let restore_changed = plain != p.opt;
    let pipeline_agrees_with_optimize = {
        let restored: Vec<_> = plain.iter().cloned().map(|r| verif::restore_on_err(r, &plain)).collect();
        restored == p.opt
    };
    if !pipeline_agrees_with_optimize {
        stats.violation_class("optimize-differs-from-pass-composition", json!({"kind": "optimize() is not the composition of its passes", "grammar": p.text}));
    }
    let nprog = alone_changed.iter().filter(|x| **x).count() + stage_changed.iter().filter(|x| **x).count() + restore_changed as usize;
    if nprog == 0 {
        stats.inc("grammars_no_pass_applies");
        return;
    }
    stats.add("programs", nprog as u64);
    for (i, c) in alone_changed.iter().enumerate() {
        if *c {
            stats.inc(&format!("rewritten_by.{}", PASS_NAMES[i]));
        }
    }
    if restore_changed {
        stats.inc("rewritten_by.restore_on_err");
    }
    let alone_gm: Vec<Option<Gm>> = (0..6).map(|i| if alone_changed[i] { Some(Gm::new(&alone[i])) } else { None }).collect();
    let stage_gm: Vec<Option<Gm>> = (0..7).map(|i| if stage_changed[i] { Some(Gm::new(&st[i])) } else { None }).collect();
    let list_is_pinned_rewrite_alone = alone[5] == passes::ref_list(&p.ast);
    let list_is_pinned_rewrite_stage = st[6] == passes::ref_list(&st[5]);
    let mut sampled = false;
    for start in &p.starts {
        for input in p.inputs.iter() {
            let m0 = run_model(&p.gm, start, input);
            if let MOut::Diverges { capped } = m0 {
                stats.inc(if capped { "excluded.model-capped" } else { "excluded.model-diverges" });
                continue;
            }
            let nontrivial = match &m0 {
                MOut::Match { pos, toks, stack } => *pos > 0 || !toks.is_empty() || !stack.is_empty(),
                MOut::Fail => !input.is_empty(),
                _ => true,
            };
            // layer 1: each pass alone
            for i in 0..6 {
                let Some(g) = &alone_gm[i] else { continue };
                let mi = run_model(g, start, input);
                stats.inc("evaluations");
                stats.inc("evaluations.layer1");
                if nontrivial {
                    stats.inc("distinct_nontrivial");
                }
                if matches!(mi, MOut::Diverges { capped: true }) {
                    stats.inc("excluded.rewritten-model-capped");
                    continue;
                }
                if !same(&m0, &mi) {
                    stats.inc("disagreements_checked");
                    let case = json!({"kind": "pass-alone-changes-meaning", "layer": 1, "pass": PASS_NAMES[i], "grammar": p.text, "rule": start, "input": input,
                        "before": mout_json(&m0), "after": mout_json(&mi), "rewritten": rules_text(&alone[i]),
                        "features": if cfg!(feature = "extras") { "grammar-extras" } else { "default" }});
                    let mut preds = vec![];
                    if i == 5 && list_is_pinned_rewrite_alone {
                        preds.push("lister-rewrite".to_string());
                    }
                    match known.first_open("C05", &preds) {
                        Some(pr) => stats.known(pr, || case.clone()),
                        None => stats.violation_class(&format!("layer1.{}", PASS_NAMES[i]), case),
                    }
                } else {
                    stats.outcome(&format!("L1.{}.{}", PASS_NAMES[i], match &mi { MOut::Match { .. } => "match", MOut::Fail => "fail", MOut::Panics => "panic", _ => "div" }));
                }
            }
            // layer 2: pipeline prefixes (only the first meaning-changing stage is reported)
            let mut last = None;
            for i in 1..=6 {
                let Some(g) = &stage_gm[i] else { continue };
                let mi = run_model(g, start, input);
                stats.inc("evaluations");
                stats.inc("evaluations.layer2");
                if nontrivial {
                    stats.inc("distinct_nontrivial");
                }
                if matches!(mi, MOut::Diverges { capped: true }) {
                    stats.inc("excluded.rewritten-model-capped");
                    break;
                }
                last = Some(mi.clone());
                if !same(&m0, &mi) {
                    stats.inc("disagreements_checked");
                    let case = json!({"kind": "pipeline-prefix-changes-meaning", "layer": 2, "pass": PASS_NAMES[i - 1], "grammar": p.text, "rule": start, "input": input,
                        "before": mout_json(&m0), "after": mout_json(&mi), "rewritten": rules_text(&st[i]),
                        "features": if cfg!(feature = "extras") { "grammar-extras" } else { "default" }});
                    let mut preds = vec![];
                    if i == 6 && list_is_pinned_rewrite_stage {
                        preds.push("lister-rewrite".to_string());
                    }
                    match known.first_open("C05", &preds) {
                        Some(pr) => stats.known(pr, || case.clone()),
                        None => stats.violation_class(&format!("layer2.{}", PASS_NAMES[i - 1]), case),
                    }
                    break;
                }
            }
            // layer 3: the real engine on optimize(G) (this is where restore_on_err is judged)
            let r = run_vm(&p.vm, start, input);
            stats.inc("evaluations");
            stats.inc("evaluations.layer3");
            if nontrivial {
                stats.inc("distinct_nontrivial");
            }
            if !sampled {
                sampled = true;
                if stats.samples.len() < 2 || stats.get("programs") % 3000 < nprog as u64 {
                    stats.sample(|| json!({"grammar": p.text, "rule": start, "input": input, "passes_that_rewrite_it": (0..6).filter(|i| alone_changed[*i]).map(|i| PASS_NAMES[i]).collect::<Vec<_>>(), "restore_on_err_inserted": restore_changed, "optimized": p.opt.iter().map(|r| format!("{} = {}", r.name, r.expr)).collect::<Vec<_>>(), "model": mout_json(&m0), "real": real_json(&r)}));
                }
            }
            if !agrees(&m0, &r) {
                stats.inc("disagreements_checked");
                // is the real engine at least faithful to the rewritten AST?
                let rewritten = last.clone().unwrap_or_else(|| m0.clone());
                let faithful = agrees(&rewritten, &r);
                let first = (1..=6).find(|i| stage_gm[*i].as_ref().map_or(false, |g| run_model(g, start, input) != m0)).map(|i| PASS_NAMES[i - 1]);
                let case = json!({"kind": "optimized-rules-on-real-engine-differ-from-written-grammar", "layer": 3, "grammar": p.text, "rule": start, "input": input,
                    "expected": mout_json(&m0), "actual": real_json(&r), "first_pass_changing_the_meaning": first, "real_engine_faithful_to_rewritten_ast": faithful,
                    "optimized": p.opt.iter().map(|r| format!("{} = {}", r.name, r.expr)).collect::<Vec<_>>(),
                    "features": if cfg!(feature = "extras") { "grammar-extras" } else { "default" }});
                let mut preds = vec![];
                if first == Some("list") && faithful && list_is_pinned_rewrite_stage {
                    preds.push("lister-rewrite".to_string());
                }
                match known.first_open("C05", &preds) {
                    Some(pr) => stats.known(pr, || case.clone()),
                    None => stats.violation_class(&format!("layer3.{}.{}", first.unwrap_or("no-ast-pass"), if faithful { "faithful" } else { "unfaithful(restore_on_err or engine)" }), case),
                }
            } else {
                stats.outcome(&format!("L3.{}", r.class()));
            }
        }
    }
}

pub fn replay(case: &vcore::Value) -> bool {
    let text = case["grammar"].as_str().unwrap();
    let rule = case["rule"].as_str().unwrap();
    let input = case["input"].as_str().unwrap();
    let crate::corpus::Prep::Ok(p) = crate::corpus::prepare(text, "replay", std::rc::Rc::new(vec![input.to_string()]), vec![rule.to_string()]) else {
        println!("replay: pest no longer accepts the grammar");
        return true;
    };
    let mut st = Stats::new();
    check_grammar(&p, &Known::default(), &mut st);
    for v in &st.violations {
        println!("{}", serde_json_pretty(v));
    }
    st.get("violations") == 0
}

fn serde_json_pretty(v: &vcore::Value) -> String {
    format!("{v:#}")
}
