//! C12 — a call limit never changes a result silently: for every case, the unlimited
//! result, the exact number of calls C (hook H2), then *every* limit 1..=C+1.
use crate::c01::real_json;
use crate::corpus::Prepared;
use crate::model::{run_model, MOut};
use crate::real::{run_vm_tagged as run_vm, Real};
use std::num::NonZeroUsize;
use vcore::verdict::Known;
use vcore::{json, Stats};

fn is_clr(r: &Real) -> bool {
    matches!(r, Real::Err { custom: Some(m), .. } if m == "call limit reached")
}

pub fn check_grammar(p: &Prepared, _known: &Known, stats: &mut Stats, max_calls: usize) {
    let mut sampled = false;
    for start in &p.starts {
        for input in p.inputs.iter() {
            if let MOut::Diverges { .. } = run_model(&p.gm, start, input) {
                stats.inc("excluded.model-diverges-or-capped");
                continue;
            }
          for detail in [false, true] {
            // the whole sweep once more with detailed error tracking on (its bookkeeping runs inside
            // the same combinators that count calls)
            pest::set_error_detail(detail);
            let _reset = ResetDetail;
            pest::set_call_limit(None);
            let r_inf = run_vm(&p.vm, start, input);
            if matches!(r_inf, Real::Panic(_)) {
                stats.inc("excluded.unlimited-run-panics(documented empty-stack panic)");
                continue;
            }
            // exact call count: a limit nobody can reach makes the tracker count
            pest::set_call_limit(NonZeroUsize::new(usize::MAX / 2));
            let r_big = run_vm(&p.vm, start, input);
            let calls = pest::verif::last_call_count();
            pest::set_call_limit(None);
            let Some(c) = calls else {
                stats.failures.push("hook H2 returned no call count".into());
                return;
            };
            if r_big != r_inf {
                stats.violation_class("huge-limit-differs", json!({"kind": "result-under-unreachable-limit-differs", "grammar": p.text, "rule": start, "input": input, "unlimited": real_json(&r_inf), "limited": real_json(&r_big), "limit": usize::MAX / 2, "error_detail": detail, "features": feat()}));
                continue;
            }
            if c > max_calls {
                stats.inc("excluded.more-calls-than-the-tier-sweeps");
                stats.cap(&format!("cases needing more than {max_calls} calls are not swept"));
                continue;
            }
            stats.max("largest_call_count_swept", c as u64);
            let mut completed_at: Option<usize> = None;
            let mut outcomes = 0u32;
            for l in 1..=c + 1 {
                pest::set_call_limit(NonZeroUsize::new(l));
                let r = run_vm(&p.vm, start, input);
                pest::set_call_limit(None);
                stats.inc("evaluations");
                if l > 1 && l <= c {
                    stats.inc("distinct_nontrivial");
                }
                let same = r == r_inf;
                let clr = is_clr(&r);
                if same {
                    outcomes |= 1;
                } else if clr {
                    outcomes |= 2;
                }
                if !same && !clr {
                    stats.violation_class("silent-change", json!({"kind": "limit-changes-result-silently", "grammar": p.text, "rule": start, "input": input, "limit": l, "calls_needed": c,
                        "unlimited": real_json(&r_inf), "limited": real_json(&r), "error_detail": detail, "features": feat()}));
                    break;
                }
                if same && completed_at.is_none() {
                    completed_at = Some(l);
                }
                if !same {
                    if let Some(l0) = completed_at {
                        stats.violation_class("not-monotone", json!({"kind": "completes-under-smaller-limit-but-not-larger", "grammar": p.text, "rule": start, "input": input, "completes_at": l0, "fails_at": l, "calls_needed": c, "error_detail": detail, "features": feat()}));
                        break;
                    }
                }
                if l == c + 1 && !same {
                    stats.inc("observed.limit-beyond-need-still-refuses");
                }
            }
            // limits far beyond the need (every width the limit might be stored in): a parse that
            // completes under limit C completes identically under every larger limit
            #[cfg(target_pointer_width = "64")]
            for big in [(1usize << 16) + 1, (1usize << 32) + 1, (1usize << 63) + 1].into_iter().filter(|_| !detail && c >= 2) {
                pest::set_call_limit(NonZeroUsize::new(big));
                let r = run_vm(&p.vm, start, input);
                pest::set_call_limit(None);
                stats.inc("evaluations");
                if r != r_inf {
                    stats.violation_class("large-limit-differs", json!({"kind": "completes-under-the-needed-limit-but-not-under-a-much-larger-one", "grammar": p.text, "rule": start, "input": input, "limit": big, "calls_needed": c,
                        "unlimited": real_json(&r_inf), "limited": real_json(&r), "error_detail": detail, "features": feat()}));
                    break;
                }
            }
            stats.outcome(&format!("calls{}:{}{}", c.min(12), outcomes, if detail { ":detail" } else { "" }));
            if !sampled && (stats.samples.len() < 2 || stats.get("grammars_accepted") % 2000 == 0) {
                sampled = true;
                stats.sample(|| json!({"grammar": p.text, "rule": start, "input": input, "calls_needed": c, "limits_swept": format!("1..={}", c + 1), "unlimited": real_json(&r_inf), "first_limit_that_completes": completed_at}));
            }
          }
        }
    }
}

struct ResetDetail;
impl Drop for ResetDetail {
    fn drop(&mut self) {
        pest::set_error_detail(false);
    }
}

fn feat() -> &'static str {
    if cfg!(feature = "extras") {
        "grammar-extras"
    } else {
        "default"
    }
}

pub fn replay(case: &vcore::Value) -> bool {
    let text = case["grammar"].as_str().unwrap();
    let rule = case["rule"].as_str().unwrap();
    let input = case["input"].as_str().unwrap();
    let crate::corpus::Prep::Ok(p) = crate::corpus::prepare(text, "replay", std::rc::Rc::new(vec![input.to_string()]), vec![rule.to_string()]) else {
        println!("replay: pest no longer accepts the grammar");
        return true;
    };
    let mut st = Stats::new();
    check_grammar(&p, &Known::default(), &mut st, 100_000);
    for v in &st.violations {
        println!("{v:#}");
    }
    st.get("violations") == 0
}
