//! C04 part (a): every successful parse of the corpus yields a well-formed token stream, and
//! every view of the returned `Pairs` agrees with the tree that stream denotes.
use crate::corpus::Prepared;
use crate::model::{run_model, MOut};
use crate::views::{self, check_pairs, Node, Opts};
use std::collections::HashSet;
use vcore::verdict::Known;
use vcore::{json, Stats};

fn set_tags(f: &mut [Node], tags: &mut std::vec::IntoIter<Option<String>>) {
    for n in f.iter_mut() {
        n.tag = tags.next().flatten();
        set_tags(&mut n.children, tags);
    }
}

pub fn check_grammar(p: &Prepared, _known: &Known, stats: &mut Stats, seen: &mut HashSet<u128>) {
    for start in &p.starts {
        for input in p.inputs.iter() {
            if let MOut::Diverges { .. } = run_model(&p.gm, start, input) {
                continue;
            }
            let r = vcore::catch(|| p.vm.parse(start, input).ok().map(|pairs| (pairs.clone().tokens().map(|t| views::tok(&t)).collect::<Vec<_>>(), pairs)));
            let Ok(Some((toks, pairs))) = r else { continue };
            let key = vcore::hash128(format!("{input}|{toks:?}").as_bytes());
            if !seen.insert(key) {
                stats.inc("parses_with_a_tree_already_checked");
                continue;
            }
            stats.inc("evaluations");
            if toks.len() >= 4 {
                stats.inc("distinct_nontrivial");
            }
            let mut problems = vec![];
            let Some(mut forest) = views::forest_from_tokens(&toks, input, &mut problems) else {
                stats.violation_class("stream-not-well-formed", json!({"kind": "token-stream-not-well-formed", "grammar": p.text, "rule": start, "input": input, "problems": problems, "features": if cfg!(feature = "extras") { "grammar-extras" } else { "default" }}));
                continue;
            };
            // tags are not part of the token stream: read them once from flatten(), every other view is compared with that
            let tags: Vec<Option<String>> = pairs.clone().flatten().map(|q| q.as_node_tag().map(|s| s.to_string())).collect();
            set_tags(&mut forest, &mut tags.into_iter());
            let mut o = Opts { interleave_upto: 5, check_json: true, observations: 0, transitions: 0 };
            check_pairs(&forest, &pairs, input, &mut o, &mut problems, 3, "pairs");
            stats.add("view_transitions", o.transitions);
            stats.outcome(&format!("parse:toks{}", toks.len().min(10)));
            if !problems.is_empty() {
                stats.violation_class("parse-view-disagrees", json!({"kind": "view-disagrees-with-tree", "grammar": p.text, "rule": start, "input": input, "problems": problems.iter().take(5).collect::<Vec<_>>(), "features": if cfg!(feature = "extras") { "grammar-extras" } else { "default" }}));
            }
        }
    }
}
