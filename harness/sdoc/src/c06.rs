//! C06 — validation guarantees termination (stack-free grammars) and accepts well-formed
//! grammars. Soundness: accepted => S_doc never diverges, each model divergence being
//! confirmed on the real engine in a sacrificial child process. Completeness: every grammar
//! satisfying the syntactic `guarded` predicate (DESIGN Appendix C) must be accepted.
use crate::gram;
use crate::model::{is_builtin, run_model, Gm, MOut};
use crate::real::run_vm;
use pest_meta::ast::{Expr, Rule};
use pest_meta::parser;
use pest_vm::Vm;
use std::collections::HashMap;
use std::io::Read;
use std::process::{Command, Stdio};
use std::time::{Duration, Instant};
use vcore::pool::Worker;
use vcore::verdict::Known;
use vcore::{json, Stats, Value};

// ---------------------------------------------------------------- corpus

const MODS: &[&str] = &["", "_", "@", "$", "!"];

/// Operator contexts around a hole `{}`; the flag says whether the context is extras-only.
fn contexts() -> Vec<String> {
    let mut v: Vec<String> = vec![
        "{}", "({})?", "({})*", "({})+", "({}){2}", "({}){1,}", "({}){,2}", "({}){1,2}", "({}){2,}", "({}){2,3}", "({}){1,1}", "({}){2,2}", "({}){0,2}", "({}){1}", "&({})", "!({})", "({})", "{} ~ \"a\"", "\"\" ~ {}", "\"a\"? ~ {}", "\"a\"* ~ {}", "\"a\" ~ {}",
        "!\"a\" ~ {}", "&\"a\" ~ {}", "SOI ~ {}", "'a'..'b' ~ {}", "ANY{,2} ~ {}", "{} | \"a\"", "\"a\" | {}",
    ]
    .into_iter()
    .map(String::from)
    .collect();
    if cfg!(feature = "extras") {
        v.push("(#t = ({}))".into());
        v.push("PUSH_LITERAL(\"a\") ~ {}".into());
    }
    v
}

fn fill(ctx: &str, hole: &str) -> String {
    ctx.replace("{}", hole)
}

pub struct Gen {
    pub text: String,
    pub class: &'static str,
}

pub fn corpus(quick: bool) -> Vec<Gen> {
    let ctx = contexts();
    let mut out = vec![];
    let mods: &[&str] = MODS;
    // cycle of length 1, contexts nested to depth 2
    for m in MODS {
        for c1 in &ctx {
            out.push(Gen { text: format!("r = {m}{{ {} }}", fill(c1, "r")), class: "cycle1" });
            for c2 in &ctx {
                if c2 == "{}" {
                    continue;
                }
                out.push(Gen { text: format!("r = {m}{{ {} }}", fill(c1, &format!("({})", fill(c2, "r")))), class: "cycle1-depth2" });
            }
        }
    }
    // cycle of length 2, one context per rule
    for m1 in mods {
        for m2 in mods {
            for c1 in &ctx {
                for c2 in &ctx {
                    out.push(Gen { text: format!("r = {m1}{{ {} }} q = {m2}{{ {} }}", fill(c1, "q"), fill(c2, "r")), class: "cycle2" });
                }
            }
        }
    }
    // cycle of length 2 whose second rule carries the name of a non-keyword built-in
    for name in ["NEWLINE", "ASCII_DIGIT", "LETTER"] {
        for m2 in ["", "_", "@"] {
            for c1 in &ctx {
                for c2 in &ctx {
                    out.push(Gen { text: format!("r = {{ {} }} {name} = {m2}{{ {} }}", fill(c1, name), fill(c2, "r")), class: "cycle2-builtin-named" });
                }
            }
        }
        // and the optimizer's skip shape looking into such a cycle
        for c2 in &ctx {
            out.push(Gen { text: format!("line = @{{ (!{name} ~ ANY)* }} {name} = _{{ \"b\" | eol }} eol = _{{ \"ab\" | {} }}", fill(c2, name)), class: "cycle2-builtin-named" });
        }
    }
    // cycle of length 3
    let ctx3: Vec<&String> = if quick { ctx.iter().filter(|c| !c.contains("{2") && !c.contains("'a'") && !c.contains("SOI")).collect() } else { ctx.iter().collect() };
    for m in if quick { &MODS[..3] } else { MODS } {
        for c1 in &ctx3 {
            for c2 in &ctx3 {
                for c3 in &ctx3 {
                    out.push(Gen { text: format!("r = {m}{{ {} }} q = {{ {} }} p = _{{ {} }}", fill(c1, "q"), fill(c2, "p"), fill(c3, "r")), class: "cycle3" });
                }
            }
        }
    }
    // cycle of length 1 at depth 3 (thorough)
    if !quick {
        for m in ["", "@"] {
            for c1 in &ctx {
                for c2 in &ctx {
                    for c3 in &ctx {
                        if c2 == "{}" || c3 == "{}" {
                            continue;
                        }
                        out.push(Gen { text: format!("r = {m}{{ {} }}", fill(c1, &format!("({})", fill(c2, &format!("({})", fill(c3, "r")))))), class: "cycle1-depth3" });
                    }
                }
            }
        }
    }
    // a consuming prefix, then the recursive reference under a context, with a second alternative
    // that makes the rule nullable (the enclosing rule can match empty *inside* its own repetition)
    for m in ["", "@", "_"] {
        for pre in ["\"a\"", "'a'..'b'"] {
            for c1 in &ctx {
                for alt in ["\"\"", "EOI", "\"b\"?", "!\"a\"", "\"b\""] {
                    out.push(Gen { text: format!("r = {m}{{ {pre} ~ {} ~ \"b\"? | {alt} }}", fill(c1, "r")), class: "prefixed-cycle" });
                    out.push(Gen { text: format!("r = {m}{{ {pre} ~ {} | {alt} }} q = {{ r ~ \"b\" | {alt} }}", fill(c1, "q")), class: "prefixed-cycle" });
                }
            }
        }
    }
    // references that do not close a cycle but sit behind nullable prefixes (no false alarms)
    for c1 in &ctx {
        for c2 in &ctx {
            out.push(Gen { text: format!("r = {{ {} }} q = {{ \"b\" }}", fill(c1, &format!("({})", fill(c2, "q")))), class: "acyclic" });
        }
    }
    // WHITESPACE / COMMENT bodies
    let by = gram::bodies_by_size(gram::PLAIN_LEAVES, &gram::UNARY[..9], if quick { 2 } else { 3 });
    let small: Vec<String> = by.iter().flatten().cloned().collect();
    for special in ["WHITESPACE", "COMMENT"] {
        for m in MODS {
            let mut two: Vec<String> = vec![];
            for x in ["\"a\"?", "\"a\"", "s", "!\"a\""] {
                for y in ["\"b\"", "\"a\"*", "ANY"] {
                    two.push(format!("{x} ~ {y}"));
                    two.push(format!("{x} | {y}"));
                    two.push(format!("({x} ~ {y})+"));
                }
            }
            // a progressing head followed by a repetition whose body may or may not progress
            for body in ["\"\"", "!\"b\"", "&\"a\"", "\"a\"?", "SOI", "\"b\"", "ANY", "s?"] {
                for rep in ["*", "+", "{1,}", "{2}", "?"] {
                    two.push(format!("\"a\" ~ ({body}){rep}"));
                    two.push(format!("\"a\" ~ ({body}){rep} ~ \"b\""));
                    two.push(format!("(\"a\" | \"b\" ~ ({body}){rep})"));
                }
            }
            for b in small.iter().chain(two.iter()) {
                out.push(Gen { text: format!("{special} = {m}{{ {b} }} s = {{ \"b\" }} r = {{ \"a\" ~ \"b\" ~ (\"a\")* }}"), class: "special-body" });
            }
            // both specials defined, in either order: each must be validated on its own
            let other = if special == "WHITESPACE" { "COMMENT" } else { "WHITESPACE" };
            for b in small.iter() {
                out.push(Gen { text: format!("{other} = _{{ \"b\" }} {special} = {m}{{ {b} }} s = {{ \"b\" }} r = {{ \"a\" ~ \"a\" }}"), class: "special-body" });
                out.push(Gen { text: format!("{special} = {m}{{ {b} }} {other} = _{{ \"b\" }} s = {{ \"b\" }} r = {{ \"a\" ~ \"a\" }}"), class: "special-body" });
            }
        }
        // specials that reference themselves / each other / the start rule
        for c in &ctx {
            out.push(Gen { text: format!("{special} = _{{ {} }} r = {{ \"a\" ~ \"b\" }}", fill(c, special)), class: "special-cycle" });
            out.push(Gen { text: format!("{special} = _{{ {} }} r = {{ \"a\" ~ \"b\" | \" \" }}", fill(c, "r")), class: "special-cycle" });
        }
    }
    // left-recursive cycles through many rules (2..40), bare and behind a nullable prefix
    for n in (2..=20).chain([25, 33, 40]) {
        for (pre, class_ok) in [("", false), ("\"a\"? ~ ", false), ("\"a\" ~ ", true)] {
            let mut g = String::new();
            for i in 0..n {
                g.push_str(&format!("c{i} = {{ {pre}c{} }} ", (i + 1) % n));
            }
            g.push_str("r = { \"b\" | c0 }");
            let _ = class_ok;
            out.push(Gen { text: g, class: "long-cycle" });
        }
    }
    // plain size-ordered corpus, stack-free (under grammar-extras also below a node tag)
    let max = if quick { 4 } else { 5 };
    let mut leaves: Vec<&str> = gram::PLAIN_LEAVES.to_vec();
    leaves.push("^\"\"");
    let mut unary: Vec<(&str, &str)> = gram::UNARY[..9].to_vec();
    unary.extend(gram::EXTRA_UNARY.iter().copied());
    let by = gram::bodies_by_size(&leaves, &unary, max);
    for (i, level) in by.iter().enumerate() {
        for b in level {
            // callee rules: progressing; nullable; recursive through r; non-progressing but able to
            // fail (predicates, SOI/EOI); non-failing
            let sdefs: &[(&str, &str)] = &[
                ("", "s = { \"a\" ~ \"b\" }"),
                ("@", "s = _{ \"a\"? }"),
                ("", "s = { r? ~ \"a\" }"),
                ("", "s = { !\"a\" }"),
                ("", "s = _{ &\"a\" ~ SOI }"),
                ("$", "s = { \"\" | \"a\" }"),
                ("", "s = { t ~ t } t = _{ !\"b\" }"),
                ("", "NEWLINE = { \"b\" | EOI }"),
                ("", "ASCII_DIGIT = _{ \"a\"? }"),
                ("@", "LETTER = { !\"a\" }"),
            ];
            for (si, (m, sdef)) in sdefs.iter().enumerate() {
                if i >= 5 && !sdef.contains("r?") {
                    continue;
                }
                if i >= 4 && si >= 3 && quick {
                    continue;
                }
                if i >= 4 && si >= 7 {
                    continue;
                }
                // bodies refer to the callee as `s`; a callee with another name replaces that token
                let callee = sdef.split(' ').next().unwrap();
                let body = if callee == "s" { b.clone() } else { replace_ident(b, "s", callee) };
                out.push(Gen { text: format!("{sdef} r = {m}{{ {body} }}"), class: if callee == "s" { "plain" } else { "builtin-named-callee" } });
            }
        }
    }
    out
}

fn replace_ident(text: &str, from: &str, to: &str) -> String {
    // whole-token replacement (bodies are made of quoted literals, operators and identifiers)
    let mut out = String::new();
    let mut in_str = false;
    let chars: Vec<char> = text.chars().collect();
    let mut i = 0;
    while i < chars.len() {
        let c = chars[i];
        if c == '"' || c == '\'' {
            in_str = !in_str;
            out.push(c);
            i += 1;
        } else if !in_str && (c.is_alphanumeric() || c == '_') {
            let st = i;
            while i < chars.len() && (chars[i].is_alphanumeric() || chars[i] == '_') {
                i += 1;
            }
            let tok: String = chars[st..i].iter().collect();
            out.push_str(if tok == from { to } else { &tok });
        } else {
            out.push(c);
            i += 1;
        }
    }
    out
}

// ---------------------------------------------------------------- the guarded predicate

fn one_char_builtin(n: &str) -> bool {
    (is_builtin(n) && !matches!(n, "SOI" | "EOI" | "PEEK" | "POP" | "PEEK_ALL" | "POP_ALL" | "DROP")) || pest::unicode::by_name(n).is_some()
}

/// `e` can only succeed by first matching one character through a literal/range/built-in.
fn guarded_expr(e: &Expr, rules: &HashMap<String, Expr>, path: &mut Vec<String>) -> bool {
    match e {
        Expr::Str(s) | Expr::Insens(s) => !s.is_empty(),
        Expr::Range(..) => true,
        Expr::Ident(n) => {
            if let Some(body) = rules.get(n) {
                if path.contains(n) {
                    return false;
                }
                path.push(n.clone());
                let r = guarded_expr(body, rules, path);
                path.pop();
                r
            } else {
                one_char_builtin(n)
            }
        }
        Expr::Seq(a, _) => guarded_expr(a, rules, path),
        Expr::Choice(a, b) => guarded_expr(a, rules, path) && guarded_expr(b, rules, path),
        Expr::RepOnce(x) => guarded_expr(x, rules, path),
        Expr::RepExact(x, n) | Expr::RepMin(x, n) | Expr::RepMinMax(x, n, _) => *n >= 1 && guarded_expr(x, rules, path),
        Expr::Push(x) => guarded_expr(x, rules, path),
        #[cfg(feature = "extras")]
        Expr::NodeTag(x, _) => guarded_expr(x, rules, path),
        _ => false,
    }
}

/// Rule references not preceded (inside `e`) by a guarded prefix.
fn exposed(e: &Expr, rules: &HashMap<String, Expr>, out: &mut Vec<String>) {
    match e {
        Expr::Ident(n) => {
            if rules.contains_key(n) && !out.contains(n) {
                out.push(n.clone());
            }
        }
        Expr::Seq(a, b) => {
            exposed(a, rules, out);
            if !guarded_expr(a, rules, &mut vec![]) {
                exposed(b, rules, out);
            }
        }
        Expr::Choice(a, b) => {
            exposed(a, rules, out);
            exposed(b, rules, out);
        }
        Expr::PosPred(x) | Expr::NegPred(x) | Expr::Opt(x) | Expr::Rep(x) | Expr::RepOnce(x) | Expr::RepExact(x, _) | Expr::RepMin(x, _) | Expr::RepMax(x, _) | Expr::RepMinMax(x, _, _) | Expr::Push(x) => exposed(x, rules, out),
        #[cfg(feature = "extras")]
        Expr::NodeTag(x, _) => exposed(x, rules, out),
        _ => {}
    }
}

fn bodies_ok(e: &Expr, rules: &HashMap<String, Expr>, nonfinal: bool) -> bool {
    // `nonfinal`: e is a non-final alternative of a choice
    if nonfinal && !guarded_expr(e, rules, &mut vec![]) {
        return false;
    }
    match e {
        Expr::Choice(a, b) => {
            // a | (b | c): a non-final; for the right operand, its own structure decides
            bodies_ok(a, rules, true) && bodies_ok(b, rules, false)
        }
        Expr::Seq(a, b) => bodies_ok(a, rules, false) && bodies_ok(b, rules, false),
        Expr::Rep(x) | Expr::RepOnce(x) | Expr::RepExact(x, _) | Expr::RepMin(x, _) | Expr::RepMax(x, _) | Expr::RepMinMax(x, _, _) => guarded_expr(x, rules, &mut vec![]) && bodies_ok(x, rules, false),
        Expr::PosPred(x) | Expr::NegPred(x) | Expr::Opt(x) | Expr::Push(x) => bodies_ok(x, rules, false),
        #[cfg(feature = "extras")]
        Expr::NodeTag(x, _) => bodies_ok(x, rules, false),
        _ => true,
    }
}

/// A left-nested choice `(a | b) | c` has non-final alternatives a and b: normalise by
/// flattening before checking.
fn flatten_choice(e: &Expr, out: &mut Vec<Expr>) {
    match e {
        Expr::Choice(a, b) => {
            flatten_choice(a, out);
            flatten_choice(b, out);
        }
        o => out.push(o.clone()),
    }
}

fn choices_ok(e: &Expr, rules: &HashMap<String, Expr>) -> bool {
    let mut ok = true;
    let mut visit = |x: &Expr| {
        if let Expr::Choice(..) = x {
            let mut alts = vec![];
            flatten_choice(x, &mut alts);
            for a in &alts[..alts.len() - 1] {
                if !guarded_expr(a, rules, &mut vec![]) {
                    ok = false;
                }
            }
        }
    };
    walk(e, &mut visit);
    ok
}

fn walk(e: &Expr, f: &mut dyn FnMut(&Expr)) {
    f(e);
    match e {
        Expr::Seq(a, b) | Expr::Choice(a, b) => {
            walk(a, f);
            walk(b, f);
        }
        Expr::PosPred(x) | Expr::NegPred(x) | Expr::Opt(x) | Expr::Rep(x) | Expr::RepOnce(x) | Expr::RepExact(x, _) | Expr::RepMin(x, _) | Expr::RepMax(x, _) | Expr::RepMinMax(x, _, _) | Expr::Push(x) => walk(x, f),
        #[cfg(feature = "extras")]
        Expr::NodeTag(x, _) => walk(x, f),
        _ => {}
    }
}

pub fn uses_stack(rules: &[Rule]) -> bool {
    let mut s = false;
    for r in rules {
        walk(&r.expr, &mut |e| match e {
            Expr::Push(_) | Expr::PeekSlice(..) => s = true,
            #[cfg(feature = "extras")]
            Expr::PushLiteral(_) => s = true,
            Expr::Ident(n) if matches!(n.as_str(), "PEEK" | "POP" | "PEEK_ALL" | "POP_ALL" | "DROP") => s = true,
            _ => {}
        });
    }
    s
}

/// Counts below 1 or ranges with max < min are outside the documented language.
fn well_formed_counts(rules: &[Rule]) -> bool {
    let mut ok = true;
    for r in rules {
        walk(&r.expr, &mut |e| match e {
            Expr::RepExact(_, 0) | Expr::RepMax(_, 0) => ok = false,
            Expr::RepMinMax(_, m, n) if m > n || *n == 0 => ok = false,
            _ => {}
        });
    }
    ok
}

pub fn guarded(rules: &[Rule]) -> bool {
    let map: HashMap<String, Expr> = rules.iter().map(|r| (r.name.clone(), r.expr.clone())).collect();
    if !well_formed_counts(rules) {
        return false;
    }
    for r in rules {
        if !bodies_ok(&r.expr, &map, false) || !choices_ok(&r.expr, &map) {
            return false;
        }
        if (r.name == "WHITESPACE" || r.name == "COMMENT") && !guarded_expr(&r.expr, &map, &mut vec![]) {
            return false;
        }
    }
    // no cycle in the graph of exposed references
    let edges: HashMap<String, Vec<String>> = rules
        .iter()
        .map(|r| {
            let mut v = vec![];
            exposed(&r.expr, &map, &mut v);
            (r.name.clone(), v)
        })
        .collect();
    fn reaches(from: &str, to: &str, edges: &HashMap<String, Vec<String>>, seen: &mut Vec<String>) -> bool {
        for n in edges.get(from).map(|v| v.as_slice()).unwrap_or(&[]) {
            if n == to {
                return true;
            }
            if !seen.contains(n) {
                seen.push(n.clone());
                if reaches(n, to, edges, seen) {
                    return true;
                }
            }
        }
        false
    }
    for r in rules {
        if reaches(&r.name, &r.name, &edges, &mut vec![]) {
            return false;
        }
    }
    true
}

// ---------------------------------------------------------------- confirmation in a child process

#[derive(Debug, PartialEq)]
pub enum Confirm {
    Returned,
    StackOverflowOrAbort(String),
    Timeout,
}

/// Run the real parse in a sacrificial child (small stack, memory cap, timeout).
pub fn confirm(grammar: &str, rule: &str, input: &str) -> Confirm {
    let exe = std::env::current_exe().unwrap();
    let mut child = Command::new("/bin/sh")
        .arg("-c")
        .arg("ulimit -s 4096; ulimit -v 2097152; exec \"$0\" --prop=C06 --confirm-child")
        .arg(&exe)
        .env("VERIF_CONFIRM", json!({"grammar": grammar, "rule": rule, "input": input}).to_string())
        .env_remove("VERIF_WORKER")
        .stdin(Stdio::null())
        .stdout(Stdio::piped())
        .stderr(Stdio::null())
        .spawn()
        .expect("spawn confirm child");
    let t0 = Instant::now();
    loop {
        match child.try_wait() {
            Ok(Some(st)) => {
                let mut out = String::new();
                let _ = child.stdout.take().unwrap().read_to_string(&mut out);
                if st.success() && out.contains("RETURNED") {
                    return Confirm::Returned;
                }
                use std::os::unix::process::ExitStatusExt;
                return Confirm::StackOverflowOrAbort(format!("signal {:?} code {:?}", st.signal(), st.code()));
            }
            Ok(None) => {}
            Err(e) => return Confirm::StackOverflowOrAbort(format!("wait failed: {e}")),
        }
        if t0.elapsed() > Duration::from_secs(3) {
            let _ = child.kill();
            let _ = child.wait();
            return Confirm::Timeout;
        }
        std::thread::sleep(Duration::from_millis(2));
    }
}

pub fn confirm_child_main() -> ! {
    let v: Value = serde_json_from(&std::env::var("VERIF_CONFIRM").expect("VERIF_CONFIRM"));
    let (g, r, i) = (v["grammar"].as_str().unwrap(), v["rule"].as_str().unwrap(), v["input"].as_str().unwrap());
    let Ok((_, opt)) = pest_meta::parse_and_optimize(g) else {
        println!("REJECTED");
        std::process::exit(3)
    };
    let vm = Vm::new(opt);
    let ok = vm.parse(r, i).is_ok();
    println!("RETURNED {ok}");
    std::process::exit(0)
}

fn serde_json_from(s: &str) -> Value {
    s.parse::<Value>().expect("json")
}

// ---------------------------------------------------------------- the check

fn feat() -> &'static str {
    if cfg!(feature = "extras") {
        "grammar-extras"
    } else {
        "default"
    }
}

/// Name of the operator through which the diverging cycle passes (known-finding predicates
/// are keyed on it). Purely syntactic, computed on the rule bodies.
pub fn cycle_operators(rules: &[Rule]) -> Vec<String> {
    let mut ops = vec![];
    for r in rules {
        walk(&r.expr, &mut |e| {
            let tag = match e {
                Expr::Seq(..) => "seq",
                Expr::RepExact(..) => "rep-exact",
                Expr::RepMin(..) => "rep-min",
                Expr::RepMax(..) => "rep-max",
                Expr::RepMinMax(..) => "rep-min-max",
                #[cfg(feature = "extras")]
                Expr::NodeTag(..) => "node-tag",
                _ => "",
            };
            if !tag.is_empty() && !ops.contains(&tag.to_string()) {
                ops.push(tag.to_string());
            }
        });
    }
    ops
}

pub fn check_one(g: &Gen, known: &Known, stats: &mut Stats, inputs: &[String], confirm_budget: &mut usize, confirm_wall: &mut Duration) {
    stats.inc("grammars_generated");
    stats.inc(&format!("generated.{}", g.class));
    // the abstract rules, without the validator (hook H4)
    let ast_unvalidated = match vcore::catch(|| parser::parse(parser::Rule::grammar_rules, &g.text).ok().and_then(|p| parser::verif_consume_rules_unvalidated(p).ok())) {
        Ok(Some(a)) => a,
        Ok(None) => {
            stats.inc("excluded.not-readable");
            return;
        }
        Err(_) => {
            stats.inc("excluded.front-end-panic(C09)");
            return;
        }
    };
    let accepted = match vcore::catch(|| pest_meta::parse_and_optimize(&g.text).map(|x| x.1).map_err(|e| e.iter().map(|x| x.variant.message().to_string()).collect::<Vec<_>>())) {
        Ok(x) => x,
        Err(_) => {
            stats.inc("excluded.front-end-panic(C09)");
            return;
        }
    };
    let is_guarded = guarded(&ast_unvalidated);
    if is_guarded {
        stats.inc("guarded_grammars");
    }
    match accepted {
        Err(msgs) => {
            stats.inc("grammars_rejected_by_pest");
            stats.outcome(&format!("rejected:{}", g.class));
            if is_guarded && msgs.iter().all(|m| m.contains("tags on silent rules") || m.contains("tags on built-in rules")) {
                // an unrelated restriction of grammar-extras, not a termination judgement
                stats.inc("excluded.rejected-for-tag-on-silent-rule");
            } else if is_guarded {
                stats.violation_class("guarded-grammar-rejected", json!({"kind": "well-formed-grammar-rejected", "grammar": g.text, "errors": msgs, "features": feat()}));
            }
        }
        Ok(opt) => {
            stats.inc("grammars_accepted");
            if uses_stack(&ast_unvalidated) {
                stats.inc("excluded.uses-stack");
                return;
            }
            let gm = Gm::new(&ast_unvalidated);
            let vm = Vm::new(opt);
            let mut diverging: Vec<(String, String)> = vec![];
            for r in &ast_unvalidated {
                for input in inputs {
                    stats.inc("evaluations");
                    match run_model(&gm, &r.name, input) {
                        MOut::Diverges { capped: false } => {
                            if diverging.len() < 4 {
                                diverging.push((r.name.clone(), input.clone()));
                            }
                            stats.inc("model_divergences");
                        }
                        MOut::Diverges { capped: true } => stats.inc("excluded.model-capped"),
                        m => {
                            // the real engine must return (the watchdog turns a hang into a report)
                            let _ = run_vm(&vm, &r.name, input);
                            if !matches!(m, MOut::Fail) || !input.is_empty() {
                                stats.inc("distinct_nontrivial");
                            }
                        }
                    }
                }
            }
            if diverging.is_empty() {
                stats.outcome(&format!("accepted-terminates:{}", g.class));
                if stats.samples.len() < 3 {
                    stats.sample(|| json!({"grammar": g.text, "class": g.class, "accepted": true, "guarded": is_guarded, "model": "terminates on every rule and input up to the bound"}));
                }
                return;
            }
            // accepted, and the reference semantics diverges: confirm on the real engine
            let mut confirmed: Option<(String, String, String)> = None;
            for (rule, input) in &diverging {
                if *confirm_budget == 0 || confirm_wall.is_zero() {
                    stats.cap("confirmation budget exhausted; remaining model divergences are counted but not confirmed");
                    break;
                }
                *confirm_budget -= 1;
                stats.inc("confirmations_run");
                let t0 = Instant::now();
                let verdict = confirm(&g.text, rule, input);
                *confirm_wall = confirm_wall.saturating_sub(t0.elapsed());
                match verdict {
                    Confirm::Returned => stats.inc("model-only-divergence(real engine returned)"),
                    Confirm::StackOverflowOrAbort(how) => {
                        confirmed = Some((rule.clone(), input.clone(), format!("child died: {how}")));
                        break;
                    }
                    Confirm::Timeout => {
                        confirmed = Some((rule.clone(), input.clone(), "child did not return within 3 s".into()));
                        break;
                    }
                }
            }
            if let Some((rule, input, how)) = confirmed {
                stats.inc("traces_validated_against_impl");
                let ops = cycle_operators(&ast_unvalidated);
                let case = json!({"kind": "accepted-grammar-does-not-terminate", "class": g.class, "grammar": g.text, "rule": rule, "input": input, "real_engine": how, "operators_in_grammar": ops, "features": feat()});
                let preds: Vec<String> = vec![];
                stats.outcome(&format!("accepted-diverges:{}", g.class));
                match known.first_open("C06", &preds) {
                    Some(p) => stats.known(p, || case.clone()),
                    None => stats.violation_class(&format!("nontermination.{}", g.class), case),
                }
            }
        }
    }
}

pub fn run(quick: bool, w: &mut Worker, known: &Known, stats: &mut Stats) {
    let corpus = corpus(quick);
    let inputs = vcore::strings_upto(&['a', 'b', ' '], if quick { 4 } else { 5 });
    let mut dedup = gram::Dedup::default();
    let mut idx = 0u64;
    let mut budget = if quick { 400 } else { 4000 };
    let mut wall = Duration::from_secs(if quick { 12 } else { 120 });
    for g in &corpus {
        if !dedup.fresh(&g.text) {
            continue;
        }
        idx += 1;
        if !w.mine(idx) {
            continue;
        }
        if !w.begin(|| g.text.clone()) {
            continue;
        }
        check_one(g, known, stats, &inputs, &mut budget, &mut wall);
    }
}

pub fn replay(case: &Value) -> bool {
    let text = case["grammar"].as_str().unwrap();
    let g = Gen { text: text.to_string(), class: "replay" };
    let mut st = Stats::new();
    let inputs = vcore::strings_upto(&['a', 'b', ' '], 3);
    let mut budget = 8;
    let mut wall = Duration::from_secs(30);
    check_one(&g, &Known::default(), &mut st, &inputs, &mut budget, &mut wall);
    for v in &st.violations {
        println!("{v:#}");
    }
    st.get("violations") == 0
}
