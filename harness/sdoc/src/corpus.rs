//! The shared grammar corpus: slices of (frames x bodies x input length), prepared once per
//! grammar (real reader + validator + optimizer + VM on one side, the model on the other).
use crate::gram::{self, Frame};
use crate::model::Gm;
use pest_meta::ast::Rule;
use pest_meta::optimizer::OptimizedRule;
use pest_meta::parser;
use pest_vm::Vm;
use std::rc::Rc;
use vcore::pool::Worker;
use vcore::Stats;

pub struct Slice {
    /// when set, `bodies` are complete grammar texts (start rule `r`, and `top` if defined)
    pub whole_grammars: bool,
    /// additional input characters beyond the frame's alphabet
    pub extra_alpha: Vec<char>,
    pub name: String,
    pub frames: Vec<Frame>,
    pub bodies: Rc<Vec<String>>,
    pub len: usize,
    /// length used in frames whose alphabet has 4 letters
    pub len4: usize,
    pub extra_rules: &'static str,
    /// when set, these inputs are used instead of all strings over the alphabet
    pub explicit_inputs: Option<Rc<Vec<String>>>,
}

pub struct Prepared {
    pub text: String,
    pub label: String,
    pub ast: Vec<Rule>,
    pub opt: Vec<OptimizedRule>,
    pub vm: Vm,
    pub gm: Gm,
    pub inputs: Rc<Vec<String>>,
    pub starts: Vec<String>,
}

pub enum Prep {
    Ok(Box<Prepared>),
    Rejected,
    /// the front-end panicked (C09's business; counted, not compared)
    FrontEndPanic(String),
}

pub fn prepare(text: &str, label: &str, inputs: Rc<Vec<String>>, starts: Vec<String>) -> Prep {
    let r = vcore::catch(|| {
        let opt = match pest_meta::parse_and_optimize(text) {
            Ok((_, opt)) => opt,
            Err(_) => return None,
        };
        let pairs = parser::parse(parser::Rule::grammar_rules, text).ok()?;
        let ast = parser::consume_rules(pairs).ok()?;
        Some((ast, opt))
    });
    match r {
        Err(p) => Prep::FrontEndPanic(p),
        Ok(None) => Prep::Rejected,
        Ok(Some((ast, opt))) => {
            let gm = Gm::new(&ast);
            let vm = Vm::new(opt.clone());
            Prep::Ok(Box::new(Prepared { text: text.to_string(), label: label.to_string(), ast, opt, vm, gm, inputs, starts }))
        }
    }
}

/// Does the grammar fall under a syntactic exclusion of the model (M8, M11)?
pub fn excluded(ast: &[Rule]) -> Option<&'static str> {
    for r in ast {
        // (M8 `!` WHITESPACE/COMMENT and M11 user rules named like built-ins were excluded while the
        // two back-ends disagreed on them; since fixes 2cb1646 / 48aaeb8 they are modelled)
        let _ = r;
    }
    None
}

/// Drive `f` over every accepted grammar of the slices that belongs to this worker's shard.
pub fn for_each_grammar(slices: &[Slice], w: &mut Worker, stats: &mut Stats, mut f: impl FnMut(&Prepared, &mut Stats)) {
    let mut dedup = gram::Dedup::default();
    let mut index: u64 = 0;
    for sl in slices {
        let slice_started = std::time::Instant::now();
        for fr in &sl.frames {
            let mut alpha = fr.alphabet();
            for c in &sl.extra_alpha {
                if !alpha.contains(c) {
                    alpha.push(*c);
                }
            }
            let l = if alpha.len() >= 4 { sl.len4 } else { sl.len };
            let alpha = alpha;
            let inputs = match &sl.explicit_inputs {
                Some(i) => i.clone(),
                None => Rc::new(gram::inputs(&alpha, l)),
            };
            let mut first_in_frame = true;
            for body in sl.bodies.iter() {
                let mut text = if sl.whole_grammars { body.clone() } else { fr.text(body) };
                if !sl.extra_rules.is_empty() {
                    text.push_str(&if fr.wide { gram::widen(sl.extra_rules) } else { sl.extra_rules.to_string() });
                }
                if !dedup.fresh(&text) {
                    continue;
                }
                index += 1;
                let is_first = first_in_frame;
                first_in_frame = false;
                if !w.mine(index) {
                    continue;
                }
                if !w.begin(|| text.clone()) {
                    stats.inc("grammars_skipped_after_worker_death");
                    continue;
                }
                stats.inc("grammars_generated");
                let starts: Vec<String> = if is_first { fr.start_rules().iter().map(|s| s.to_string()).collect() } else { vec!["r".to_string()] };
                let mut starts = starts;
                if sl.extra_rules.contains("lit =") && is_first {
                    starts.push("lit".into());
                }
                if sl.whole_grammars {
                    starts = vec!["r".to_string()];
                    for extra in ["top", "s", "WHITESPACE", "COMMENT"] {
                        if text.contains(&format!("{extra} = ")) {
                            starts.push(extra.into());
                        }
                    }
                }
                match prepare(&text, &format!("{}/{}", sl.name, fr.label()), inputs.clone(), starts) {
                    Prep::Rejected => stats.inc("grammars_rejected_by_pest"),
                    Prep::FrontEndPanic(_) => stats.inc("grammars_front_end_panicked"),
                    Prep::Ok(p) => {
                        if let Some(why) = excluded(&p.ast) {
                            stats.inc(&format!("excluded.{why}"));
                            continue;
                        }
                        stats.inc("grammars_accepted");
                        stats.max("largest_input_len", p.inputs.last().map(|s| s.chars().count()).unwrap_or(0) as u64);
                        f(&p, stats);
                    }
                }
            }
        }
        // where the time goes (summed over the shards: CPU milliseconds per slice)
        stats.add(&format!("cpu_ms.{}", sl.name), slice_started.elapsed().as_millis() as u64);
    }
}

/// The standard corpus for a tier (C01 / C08 / C12 / C15 share it).
pub fn standard(quick: bool, scale: i32) -> Vec<Slice> {
    let leaves = gram::all_leaves();
    let unary = gram::all_unary();
    let mut v = vec![];
    let max = if quick { 3 } else { 4 };
    let by = gram::bodies_by_size(&leaves, &unary, max);
    let upto3: Vec<String> = by.iter().take(4).flatten().cloned().collect();
    if quick {
        // size <= 3 in the union of the three coordinate planes of the frame cube, L = 4 (3 with 4 letters)
        let frames = gram::frames(false, true);
        let l = if scale < 0 { 3 } else { 4 };
        v.push(Slice { whole_grammars: false, extra_alpha: vec![], name: "size<=3".into(), frames, bodies: Rc::new(upto3), len: l, len4: 3, extra_rules: "", explicit_inputs: None });
    } else {
        v.push(Slice { whole_grammars: false, extra_alpha: vec![], name: "size<=3/all-frames".into(), frames: gram::frames(true, true), bodies: Rc::new(upto3), len: 5, len4: 4, extra_rules: "", explicit_inputs: None });
        let plain: Vec<Frame> = gram::frames(false, false).into_iter().filter(|f| (f.ws <= 1 && f.sdef == 0) || (f.ws == 0 && f.ty == 0)).collect();
        v.push(Slice { whole_grammars: false, extra_alpha: vec![], name: "size4/plain-frames".into(), frames: plain, bodies: Rc::new(by[4].clone()), len: 4, len4: 3, extra_rules: "", explicit_inputs: None });
    }
    v.push(Slice {
        whole_grammars: false,
        extra_alpha: vec![],
        name: "stack-transactions".into(),
        frames: gram::frames(false, false).into_iter().filter(|f| f.sdef == 0 && (f.ws == 0 || (f.ws == 1 && f.ty == 0)) && (!quick || f.ty == 0 || f.ty == 2)).collect(),
        bodies: Rc::new(gram::stack_transaction_bodies()),
        len: if quick { 4 } else { 5 },
        len4: if quick { 4 } else { 5 },
        extra_rules: gram::STACK_TX_EXTRA_RULES, explicit_inputs: None
    });
    v.push(Slice {
        whole_grammars: false,
        extra_alpha: vec!['!'],
        name: "many-rules".into(),
        frames: gram::frames(false, false).into_iter().filter(|f| f.sdef == 0 && f.ws <= 1 && (f.ty == 0 || (!quick && f.ws == 0))).collect(),
        bodies: Rc::new(gram::many_rules_bodies(if quick { 3 } else { 4 })),
        len: if quick { 3 } else { 4 },
        len4: 3,
        extra_rules: gram::MANY_RULES_EXTRA, explicit_inputs: None
    });
    v.push(Slice {
        whole_grammars: false,
        extra_alpha: gram::BUILTIN_ALPHA.to_vec(),
        name: "builtins".into(),
        frames: gram::frames(false, false).into_iter().filter(|f| f.sdef == 0 && f.ws <= 1 && (f.ty == 0 || f.ty == 2) && (f.ws == 0 || f.ty == 0)).collect(),
        bodies: Rc::new(gram::builtin_bodies()),
        len: if quick { 2 } else { 3 },
        len4: if quick { 2 } else { 3 },
        extra_rules: "", explicit_inputs: None
    });
    v.push(Slice {
        whole_grammars: true,
        extra_alpha: vec![' ', '\n', '1'],
        name: "shadowed-builtins".into(),
        frames: gram::frames(false, false).into_iter().filter(|f| f.sdef == 0 && f.ws == 0 && f.ty == 0).collect(),
        bodies: Rc::new(gram::shadowed_builtin_grammars()),
        len: 3,
        len4: 3,
        extra_rules: "", explicit_inputs: None
    });
    v.push(Slice {
        whole_grammars: true,
        extra_alpha: vec![' ', '#'],
        name: "special-bodies".into(),
        frames: gram::frames(false, false).into_iter().filter(|f| f.sdef == 0 && f.ws == 0 && f.ty == 0).collect(),
        bodies: Rc::new(gram::special_body_grammars()),
        len: if quick { 4 } else { 5 },
        len4: if quick { 4 } else { 5 },
        extra_rules: "", explicit_inputs: None
    });
    v.push(Slice {
        whole_grammars: true,
        extra_alpha: vec!['0', '1', 'z'],
        name: "wide".into(),
        frames: gram::frames(false, false).into_iter().filter(|f| f.sdef == 0 && f.ws == 0 && f.ty == 0).collect(),
        bodies: Rc::new(gram::wide_grammars()),
        len: 3,
        len4: 3,
        extra_rules: "", explicit_inputs: None
    });
    let redex: Vec<String> = gram::redex_bodies(if quick { 7 } else { gram::REDEX_TERMS.len() }).into_iter().map(|x| x.0).collect();
    v.push(Slice {
        whole_grammars: false,
        extra_alpha: vec![],
        name: "redexes".into(),
        // scale <= -2 (C15's quick tier, where this slice took three quarters of the time): one plane
        // (no stack prelude) and the remaining axis of the frame cube instead of its three planes
        frames: gram::frames(!quick, false).into_iter().filter(|f| quick || f.sdef <= 2).filter(|f| !(quick && scale <= -2) || f.sdef == 0 || (f.ws == 0 && f.ty == 0)).collect(),
        bodies: Rc::new(redex),
        len: if quick { 4 } else { 5 },
        len4: if quick { 3 } else { 4 },
        extra_rules: gram::REDEX_EXTRA_RULES, explicit_inputs: None
    });
    v.push(Slice {
        whole_grammars: false,
        extra_alpha: vec![],
        name: "tagged-failures".into(),
        frames: gram::frames(false, false).into_iter().filter(|f| f.ws <= 1 && f.ty == 0 && f.sdef <= 1).collect(),
        bodies: Rc::new(gram::tagged_failure_bodies()),
        len: 4,
        len4: 3,
        extra_rules: "",
        explicit_inputs: None,
    });
    v.push(Slice {
        whole_grammars: false,
        extra_alpha: vec!['A', '-', '\r', '{', '\u{c9}', '\u{e9}'],
        name: "literal-pairs".into(),
        frames: gram::frames(false, false).into_iter().filter(|f| f.sdef == 0 && f.ws <= 1 && (f.ty == 0 || f.ty == 2) && (f.ws == 0 || f.ty == 0)).collect(),
        bodies: Rc::new(gram::literal_pair_bodies()),
        len: 3,
        len4: 3,
        extra_rules: "",
        explicit_inputs: None,
    });
    {
        let (grammars, inputs) = gram::long_token_cases();
        v.push(Slice {
            whole_grammars: true,
            extra_alpha: vec![],
            name: "long-tokens".into(),
            frames: gram::frames(false, false).into_iter().filter(|f| f.sdef == 0 && f.ws == 0 && f.ty == 0).collect(),
            bodies: Rc::new(grammars),
            len: 0,
            len4: 0,
            extra_rules: "",
            explicit_inputs: Some(Rc::new(inputs)),
        });
    }
    v
}

/// The small corpus (C12, and the per-case expensive checks): size <= 2 in all frames,
/// size 3 in the plain frames, redex slices with the short term list.
pub fn small(quick: bool) -> Vec<Slice> {
    let leaves = gram::all_leaves();
    let unary = gram::all_unary();
    let by = gram::bodies_by_size(&leaves, &unary, 3);
    let upto2: Vec<String> = by.iter().take(3).flatten().cloned().collect();
    let mut v = vec![];
    v.push(Slice { whole_grammars: false, extra_alpha: vec![], name: "size<=2/all-frames".into(), frames: gram::frames(true, true), bodies: Rc::new(upto2), len: if quick { 3 } else { 4 }, len4: 3, extra_rules: "", explicit_inputs: None });
    let plain: Vec<Frame> = gram::frames(false, false).into_iter().filter(|f| (f.ws <= 1 && f.sdef == 0) || (f.ws == 0 && f.ty == 0) || !quick).collect();
    v.push(Slice { whole_grammars: false, extra_alpha: vec![], name: "size3/plain-frames".into(), frames: plain, bodies: Rc::new(by[3].clone()), len: if quick { 3 } else { 4 }, len4: 3, extra_rules: "", explicit_inputs: None });
    v.push(Slice {
        whole_grammars: false,
        extra_alpha: vec!['!'],
        name: "many-rules".into(),
        frames: gram::frames(false, false).into_iter().filter(|f| f.sdef == 0 && f.ws <= 1 && f.ty == 0).collect(),
        bodies: Rc::new(gram::many_rules_bodies(3)),
        len: 3,
        len4: 3,
        extra_rules: gram::MANY_RULES_EXTRA, explicit_inputs: None
    });
    let redex: Vec<String> = gram::redex_bodies(if quick { 4 } else { 7 }).into_iter().map(|x| x.0).collect();
    v.push(Slice { whole_grammars: false, extra_alpha: vec![], name: "redexes".into(), frames: gram::frames(false, false).into_iter().filter(|f| !quick || f.sdef == 0).collect(), bodies: Rc::new(redex), len: if quick { 3 } else { 4 }, len4: 3, extra_rules: gram::REDEX_EXTRA_RULES, explicit_inputs: None });
    v.push(Slice {
        whole_grammars: false,
        extra_alpha: vec![],
        name: "tagged-failures".into(),
        frames: gram::frames(false, false).into_iter().filter(|f| f.ws <= 1 && f.ty == 0 && f.sdef <= 1).collect(),
        bodies: Rc::new(gram::tagged_failure_bodies()),
        len: 4,
        len4: 3,
        extra_rules: "",
        explicit_inputs: None,
    });
    v.push(Slice {
        whole_grammars: false,
        extra_alpha: vec!['A', '-', '\r', '{', '\u{c9}', '\u{e9}'],
        name: "literal-pairs".into(),
        frames: gram::frames(false, false).into_iter().filter(|f| f.sdef == 0 && f.ws <= 1 && (f.ty == 0 || f.ty == 2) && (f.ws == 0 || f.ty == 0)).collect(),
        bodies: Rc::new(gram::literal_pair_bodies()),
        len: 3,
        len4: 3,
        extra_rules: "",
        explicit_inputs: None,
    });
    {
        let (grammars, inputs) = gram::long_token_cases();
        v.push(Slice {
            whole_grammars: true,
            extra_alpha: vec![],
            name: "long-tokens".into(),
            frames: gram::frames(false, false).into_iter().filter(|f| f.sdef == 0 && f.ws == 0 && f.ty == 0).collect(),
            bodies: Rc::new(grammars),
            len: 0,
            len4: 0,
            extra_rules: "",
            explicit_inputs: Some(Rc::new(inputs)),
        });
    }
    v
}
