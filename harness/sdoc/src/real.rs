//! Running the real engine (pest_vm on the optimized rules) and normalising what it returns.
use pest::error::{ErrorVariant, InputLocation};
use pest_vm::Vm;

#[derive(Clone, Debug, PartialEq, Eq)]
pub enum Real {
    Ok { toks: Vec<(bool, String, usize)> },
    Err { pos: usize, positives: Vec<String>, negatives: Vec<String>, custom: Option<String> },
    Panic(String),
}

impl Real {
    pub fn class(&self) -> &'static str {
        match self {
            Real::Ok { .. } => "ok",
            Real::Err { custom: None, .. } => "err",
            Real::Err { .. } => "custom-err",
            Real::Panic(_) => "panic",
        }
    }
}

/// `run_vm` with the node tags of the returned pairs (pre-order) appended as one synthetic entry,
/// for the checks that compare two runs of the real engine with each other (C12, C15).
pub fn run_vm_tagged(vm: &Vm, rule: &str, input: &str) -> Real {
    run_vm_impl(vm, rule, input, true)
}

pub fn run_vm(vm: &Vm, rule: &str, input: &str) -> Real {
    run_vm_impl(vm, rule, input, false)
}

fn run_vm_impl(vm: &Vm, rule: &str, input: &str, tagged: bool) -> Real {
    let r = vcore::catch(|| match vm.parse(rule, input) {
        Ok(p) => {
            let mut toks: Vec<(bool, String, usize)> = p
                .clone()
                .tokens()
                .map(|t| match t {
                    pest::Token::Start { rule, pos } => (true, rule.to_string(), pos.pos()),
                    pest::Token::End { rule, pos } => (false, rule.to_string(), pos.pos()),
                })
                .collect();
            if tagged && cfg!(feature = "extras") {
                let tags: Vec<Option<String>> = p.flatten().map(|q| q.as_node_tag().map(|t| t.to_string())).collect();
                if tags.iter().any(|t| t.is_some()) {
                    toks.push((false, format!("#tags{tags:?}"), usize::MAX));
                }
            }
            Real::Ok { toks }
        }
        Err(e) => {
            let pos = match e.location {
                InputLocation::Pos(p) => p,
                InputLocation::Span((a, _)) => a,
            };
            match &e.variant {
                ErrorVariant::ParsingError { positives, negatives } => Real::Err {
                    pos,
                    positives: positives.iter().map(|x| x.to_string()).collect(),
                    negatives: negatives.iter().map(|x| x.to_string()).collect(),
                    custom: None,
                },
                ErrorVariant::CustomError { message } => Real::Err { pos, positives: vec![], negatives: vec![], custom: Some(message.clone()) },
            }
        }
    });
    match r {
        Ok(x) => x,
        Err(p) => Real::Panic(p),
    }
}
