//! C11 — the backtracking stack is transactional for every history.
//!
//! Explicit-state breadth-first search over operation histories of the *real*
//! `pest::Stack`, stepped in lock-step with a naive copy-on-snapshot model. A state is
//! the history reaching it; the real object is rebuilt by replay (it is not `Clone`);
//! histories are merged when (complete internal image of the real stack, model state)
//! coincide — the image is the `Debug` rendering of all three private fields, so merged
//! states have identical futures by construction. DESIGN.md §3 C11.
use std::collections::HashSet;
use vcore::{catch, json, verdict, Cfg, Stats, Value};

#[derive(Clone, Copy, PartialEq, Eq, Debug)]
enum Op {
    PushA,
    PushB,
    Pop,
    Peek,
    Snapshot,
    Clear,
    Restore,
    PushFresh,
}
const ALPHA_AB: [Op; 7] = [Op::PushA, Op::PushB, Op::Pop, Op::Peek, Op::Snapshot, Op::Clear, Op::Restore];
const ALPHA_FRESH: [Op; 6] = [Op::PushFresh, Op::Pop, Op::Peek, Op::Snapshot, Op::Clear, Op::Restore];

impl Op {
    fn name(self) -> &'static str {
        match self {
            Op::PushA => "push(1)",
            Op::PushB => "push(2)",
            Op::Pop => "pop",
            Op::Peek => "peek",
            Op::Snapshot => "snapshot",
            Op::Clear => "clear_snapshot",
            Op::Restore => "restore",
            Op::PushFresh => "push(fresh)",
        }
    }
    fn from_name(s: &str) -> Option<Op> {
        [Op::PushA, Op::PushB, Op::Pop, Op::Peek, Op::Snapshot, Op::Clear, Op::Restore, Op::PushFresh]
            .into_iter()
            .find(|o| o.name() == s)
    }
}

/// The naive reference: full copy at each snapshot.
#[derive(Clone, Default, PartialEq, Eq, Hash, Debug)]
struct Model {
    cur: Vec<u16>,
    snaps: Vec<Vec<u16>>,
}

/// Apply one op to both; return Err(description) on disagreement / panic.
fn step(real: &mut pest::Stack<u16>, m: &mut Model, op: Op, fresh: u16) -> Result<(), String> {
    let r: Result<Option<Option<u16>>, String> = catch(|| match op {
        Op::PushA => {
            real.push(1);
            None
        }
        Op::PushB => {
            real.push(2);
            None
        }
        Op::PushFresh => {
            real.push(fresh);
            None
        }
        Op::Pop => Some(real.pop()),
        Op::Peek => Some(real.peek().copied()),
        Op::Snapshot => {
            real.snapshot();
            None
        }
        Op::Clear => {
            real.clear_snapshot();
            None
        }
        Op::Restore => {
            real.restore();
            None
        }
    });
    let expect: Option<Option<u16>> = match op {
        Op::PushA => {
            m.cur.push(1);
            None
        }
        Op::PushB => {
            m.cur.push(2);
            None
        }
        Op::PushFresh => {
            m.cur.push(fresh);
            None
        }
        Op::Pop => Some(m.cur.pop()),
        Op::Peek => Some(m.cur.last().copied()),
        Op::Snapshot => {
            m.snaps.push(m.cur.clone());
            None
        }
        Op::Clear => {
            m.snaps.pop();
            None
        }
        Op::Restore => {
            m.cur = m.snaps.pop().unwrap_or_default();
            None
        }
    };
    let got = r.map_err(|p| format!("{} panicked: {p}", op.name()))?;
    if got != expect {
        return Err(format!("{} returned {got:?}, model {expect:?}", op.name()));
    }
    // contents
    let obs = catch(|| {
        let len = real.len();
        (len, real.is_empty(), real[0..len].to_vec(), real.peek().copied())
    })
    .map_err(|p| format!("observing after {} panicked: {p}", op.name()))?;
    if obs.0 != m.cur.len() || obs.1 != m.cur.is_empty() || obs.2 != m.cur || obs.3 != m.cur.last().copied() {
        return Err(format!(
            "after {}: real len={} contents={:?} peek={:?}; model contents={:?}",
            op.name(),
            obs.0,
            obs.2,
            obs.3,
            m.cur
        ));
    }
    Ok(())
}

/// Rebuild real + model by replaying `hist` (each step checked again).
fn replay(hist: &[Op]) -> Result<(pest::Stack<u16>, Model), (usize, String)> {
    let mut real = pest::Stack::<u16>::new();
    let mut m = Model::default();
    for (i, op) in hist.iter().enumerate() {
        step(&mut real, &mut m, *op, 100 + i as u16).map_err(|e| (i, e))?;
    }
    Ok((real, m))
}

/// Canonical key of a state. `rename`: values are renamed in order of first appearance
/// (sound because `Stack<T>` is parametric in `T`: it can only move and clone elements).
fn key(real: &pest::Stack<u16>, m: &Model, rename: bool) -> Vec<u8> {
    let img = format!("{real:?}|{:?}|{:?}", m.cur, m.snaps);
    if !rename {
        return img.into_bytes();
    }
    // rename every maximal digit run >= 100 (fresh values) by first appearance; tuple
    // entries of `lengths` are < 100 for every depth explored here (depth <= 99).
    let mut out = String::with_capacity(img.len());
    let mut map: Vec<String> = vec![];
    let b = img.as_bytes();
    let mut i = 0;
    while i < b.len() {
        if b[i].is_ascii_digit() {
            let s = i;
            while i < b.len() && b[i].is_ascii_digit() {
                i += 1;
            }
            let tok = &img[s..i];
            if tok.len() >= 3 {
                let idx = match map.iter().position(|x| x == tok) {
                    Some(p) => p,
                    None => {
                        map.push(tok.to_string());
                        map.len() - 1
                    }
                };
                out.push_str(&format!("v{idx}"));
            } else {
                out.push_str(tok);
            }
        } else {
            out.push(b[i] as char);
            i += 1;
        }
    }
    out.into_bytes()
}

fn hist_json(h: &[Op]) -> Value {
    json!(h.iter().map(|o| o.name()).collect::<Vec<_>>())
}

struct Search {
    states: u64,
    transitions: u64,
    depth_done: usize,
    per_level: Vec<u64>,
}

fn bfs(alpha: &[Op], depth: usize, rename: bool, jobs: usize, stats: &mut Stats, tag: &str, state_cap: usize) -> Search {
    let mut seen: HashSet<u128> = HashSet::new();
    let (r0, m0) = replay(&[]).unwrap();
    seen.insert(vcore::hash128(&key(&r0, &m0, rename)));
    let mut frontier: Vec<Vec<Op>> = vec![vec![]];
    let mut s = Search { states: 1, transitions: 0, depth_done: 0, per_level: vec![1] };
    for d in 1..=depth {
        // expand in parallel: each thread takes a stripe of the frontier
        let chunks: Vec<Vec<Vec<Op>>> = {
            let mut c: Vec<Vec<Vec<Op>>> = (0..jobs).map(|_| vec![]).collect();
            for (i, h) in frontier.drain(..).enumerate() {
                c[i % jobs].push(h);
            }
            c
        };
        let results: Vec<(Vec<(u128, Vec<Op>)>, u64, Vec<Value>, Vec<String>)> = std::thread::scope(|sc| {
            let hs: Vec<_> = chunks
                .into_iter()
                .map(|chunk| {
                    sc.spawn(move || {
                        vcore::quiet_panics();
                        let mut out = vec![];
                        let mut trans = 0u64;
                        let mut viol = vec![];
                        let mut outcomes = vec![];
                        for h in chunk {
                            for op in alpha {
                                let Ok((mut real, mut m)) = replay(&h) else { continue };
                                trans += 1;
                                let mut nh = h.clone();
                                nh.push(*op);
                                match step(&mut real, &mut m, *op, 100 + h.len() as u16) {
                                    Ok(()) => {
                                        let oc = format!("{}:len{}:snaps{}", op.name(), m.cur.len().min(3), m.snaps.len().min(3));
                                        if !outcomes.contains(&oc) {
                                            outcomes.push(oc);
                                        }
                                        out.push((vcore::hash128(&key(&real, &m, rename)), nh));
                                    }
                                    Err(e) => viol.push(json!({"kind": "stack-diverges-from-model", "history": hist_json(&nh), "step": h.len(), "what": e})),
                                }
                            }
                        }
                        (out, trans, viol, outcomes)
                    })
                })
                .collect();
            hs.into_iter().map(|h| h.join().unwrap()).collect()
        });
        let mut next = vec![];
        for (out, trans, viol, outcomes) in results {
            s.transitions += trans;
            for v in viol {
                stats.violation(v);
            }
            for o in outcomes {
                stats.outcome(&o);
            }
            for (k, h) in out {
                if seen.insert(k) {
                    next.push(h);
                }
            }
        }
        // deterministic order regardless of thread striping
        next.sort_by(|a, b| a.iter().map(|o| *o as u8).cmp(b.iter().map(|o| *o as u8)));
        s.states += next.len() as u64;
        s.per_level.push(next.len() as u64);
        s.depth_done = d;
        frontier = next;
        if stats.get("violations") > 0 {
            break; // shortest counterexamples found; deeper levels add nothing
        }
        if seen.len() > state_cap && d < depth {
            stats.cap(&format!("{tag}: state cap {state_cap} reached after depth {d} (requested {depth})"));
            break;
        }
    }
    if let Some(h) = frontier.last() {
        let h = h.clone();
        stats.sample(|| json!({"alphabet": tag, "deepest_history": hist_json(&h)}));
    }
    s
}

fn main() {
    let cfg = Cfg::from_env();
    vcore::quiet_panics();
    let mut stats = Stats::new();
    if let Some(p) = &cfg.replay {
        let case = verdict::load_replay(p);
        let hist: Vec<Op> = case["history"].as_array().expect("history").iter().map(|x| Op::from_name(x.as_str().unwrap()).expect("op")).collect();
        match replay(&hist) {
            Ok((real, m)) => {
                println!("replay: history of {} ops agrees with the model; final real image {real:?}, model {m:?}", hist.len());
                std::process::exit(0)
            }
            Err((i, e)) => {
                println!("replay: step {i} ({}) — {e}", hist[i].name());
                println!("VIOLATION property=C11 replay={p}");
                std::process::exit(1)
            }
        }
    }
    let (d_ab, d_fresh, cap) = if cfg.quick() { (10, 9, 3_000_000) } else { (13, 12, 60_000_000) };
    let d_ab = cfg.opt("depth").and_then(|s| s.parse().ok()).unwrap_or(d_ab);
    let d_fresh = cfg.opt("depth_fresh").and_then(|s| s.parse().ok()).unwrap_or(d_fresh);
    let a = bfs(&ALPHA_AB, d_ab, false, cfg.jobs, &mut stats, "two-values", cap);
    let b = if stats.get("violations") == 0 { bfs(&ALPHA_FRESH, d_fresh, true, cfg.jobs, &mut stats, "fresh-values", cap) } else { Search { states: 0, transitions: 0, depth_done: 0, per_level: vec![] } };
    // determinism: the first levels explored twice must give identical counts
    let mut scratch = Stats::new();
    let a2 = bfs(&ALPHA_AB, a.depth_done.min(7), false, 1, &mut scratch, "recheck", usize::MAX);
    if a2.per_level[..] != a.per_level[..a2.per_level.len()] {
        stats.failures.push(format!("non-deterministic exploration: {:?} vs {:?}", a2.per_level, a.per_level));
    }
    stats.add("evaluations", a.transitions + b.transitions);
    stats.add("distinct_nontrivial", a.states + b.states);
    stats.max("depth_two_values", a.depth_done as u64);
    stats.max("depth_fresh_values", b.depth_done as u64);
    stats.sample(|| json!({"history": ["push(1)", "snapshot", "pop", "snapshot", "push(2)", "clear_snapshot", "restore"], "note": "shape of a history: every prefix is stepped on the real Stack and on the model"}));
    let mut cov = vcore::Map::new();
    cov.insert("states".into(), json!(a.states + b.states));
    cov.insert("transitions".into(), json!(a.transitions + b.transitions));
    cov.insert("traces_validated_against_impl".into(), json!(a.transitions + b.transitions));
    cov.insert("states_per_level_two_values".into(), json!(a.per_level));
    cov.insert("states_per_level_fresh_values".into(), json!(b.per_level));
    cov.insert("rule".into(), json!("BFS over histories of {push(1),push(2),pop,peek,snapshot,clear_snapshot,restore} (and a second search with a fresh value per push, values renamed canonically) from the empty stack; every transition is executed on the real pest::Stack and on the naive model and compared (return value, len, is_empty, contents, peek, no panic); a state is distinct if its (Debug image of cache/popped/lengths, model state) is new"));
    verdict::conclude(verdict::Report {
        property: "C11",
        level: "model_checking",
        cfg: &cfg,
        stats,
        coverage: cov,
        assumptions: vec![
            "Stack<T> is parametric in T (element renaming is a symmetry)".into(),
            "state keys are 128-bit hashes of the complete image; a collision could merge two states".into(),
            "depth-bounded: histories longer than the stated depth are not explored".into(),
        ],
    })
}
