#!/usr/bin/env python3
"""Regenerates /verif/MANIFEST.json from the table below (single source of truth)."""
import json, os
ROOT = os.path.dirname(os.path.abspath(__file__))
props = [json.loads(l) for l in open(os.path.join(ROOT, "properties.jsonl"))]
ids = [p["id"] for p in props]

# id -> dict(level, technique, text, note, design_ref)
CHECKS = {
 "C11": dict(level="model_checking", engine="history-bfs",
   technique="explicit-state BFS over operation histories of the real pest::Stack in lock-step with a naive copy-on-snapshot model, states merged on the complete internal image",
   text="Every history of the seven stack operations up to the stated depth (quick 10, thorough 13; a second search with a fresh value per push) is executed on the real Stack and on the reference model; return values, len, contents and peek are compared after every transition and any panic is a violation. Exhaustive within the depth bound, so any transactional defect that needs a short specific history (pop below the snapshot line, nested clear, restore) is found with a minimal history.",
   note="Depth-bounded. Trusts: the harness' naive model (15 lines), 128-bit state hashes, Debug rendering exposing all three private fields.",
   design_ref="§3 C11"),
}
PENDING = {}

checks = []
for i in ids:
    if i in CHECKS:
        c = CHECKS[i]
        checks.append({
            "property_id": i,
            "quick_cmd": f"./check {i} --tier quick",
            "thorough_cmd": f"./check {i} --tier thorough",
            "evidence_file": f"/verif/evidence/{i}.json",
            "replay_cmd_template": f"./check {i} --replay {{path}}",
            "engine": c["engine"],
            "level_claimed": {"category": c["level"], "text": c["text"], "design_ref": c["design_ref"]},
            "level_note": c["note"],
            "technique": c["technique"],
        })
na = [{"property_id": i, "reason": PENDING.get(i, "check not built yet in this round; planned per DESIGN.md §3 (bounded exhaustive exploration applies)")} for i in ids if i not in CHECKS]
hooks_commits = [l.strip() for l in open(os.path.join(ROOT, "hooks_commits.txt"))] if os.path.exists(os.path.join(ROOT, "hooks_commits.txt")) else []
m = {
 "version": 1,
 "setup_cmd": "./check --setup",
 "hooks": {
   "guard": "verif-hooks (cargo feature of pest and pest_meta; off by default)",
   "enable": "harness crates depend on /repo/pest and /repo/meta by path with features = [\"verif-hooks\"]",
   "baseline_off_cmd": "cd /repo && cargo nextest run --workspace --no-fail-fast --offline",
   "source_commits": hooks_commits,
   "add_only": True,
 },
 "engines": [
   {"name": "history-bfs", "path": "/verif/harness/c11", "serves_properties": ["C11"], "kind_free_text": "explicit-state breadth-first search over operation histories of the real object, replay-rebuilt, lock-step reference model"},
 ],
 "checks": checks,
 "not_applicable": na,
 "notes": "All checks are bounded exhaustive explorations of the real pest code against reference models (DESIGN.md). ./check <ID> rebuilds the harness against /repo's working tree on every invocation.",
}
json.dump(m, open(os.path.join(ROOT, "MANIFEST.json"), "w"), indent=1)
print("checks:", len(checks), "not_applicable:", len(na))
