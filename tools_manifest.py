#!/usr/bin/env python3
"""Regenerates /verif/MANIFEST.json from the table below (single source of truth)."""
import json, os
ROOT = os.path.dirname(os.path.abspath(__file__))
props = [json.loads(l) for l in open(os.path.join(ROOT, "properties.jsonl"))]
ids = [p["id"] for p in props]

# id -> dict(level, technique, text, note, design_ref)
CHECKS = {
 "C11": dict(level="model_checking", engine="history-bfs",
   technique="explicit-state BFS over operation histories of the real pest::Stack in lock-step with a naive copy-on-snapshot model, states merged on the complete internal image",
   text="Every history of the seven stack operations up to the stated depth (quick 10, thorough 13; a second search with a fresh value per push) is executed on the real Stack and on the reference model; return values, len, contents and peek are compared after every transition and any panic is a violation. Exhaustive within the depth bound, so any transactional defect that needs a short specific history (pop below the snapshot line, nested clear, restore) is found with a minimal history.",
   note="Depth-bounded. Trusts: the harness' naive model (15 lines), 128-bit state hashes, Debug rendering exposing all three private fields.",
   design_ref="§3 C11"),
}
CHECKS.update({
 "C01": dict(level="exploration", engine="sdoc-explorer",
   technique="bounded exhaustive enumeration of grammars x start rules x inputs on the real reader/optimizer/VM against the S_doc reference semantics",
   text="Every grammar of the corpus (expression trees by size over 20 leaves/10 unary/2 binary operators in 70-150 frames of rule modifier x WHITESPACE/COMMENT set-up x callee rule, plus rewrite-redex slices; default and grammar-extras builds) that pest accepts is run from its start rules on every input up to the length bound; acceptance, documented panics and the complete token stream are compared with an independent executable reading of the documented semantics evaluated on the unoptimized AST. Exhaustive within the size/length bounds; a disagreement is attributed to the optimizer pass that first changes the model's verdict.",
   note="S_doc clauses M1-M14 (DESIGN.md) are the trusted reading of the prose; diverging cases are excluded (C06); bounds: size <= 3 (quick) / 4 (thorough), input length <= 4/5.",
   design_ref="§3 C01, Appendix A"),
 "C05": dict(level="translation_validation", engine="sdoc-explorer",
   technique="per-pass and per-prefix translation validation by bounded input-exhaustive equivalence under S_doc, plus the real VM on optimize(G)",
   text="Each rule set rewritten by one pass alone, by each pipeline prefix, and by restore_on_err is validated against the written grammar on every start rule and every input up to the bound: S_doc(before) == S_doc(after) on consumed length, tokens and final stack (layers 1-2), and VM(optimize(G)) == S_doc(G) (layer 3, where the stack-restoration guarantee is judged). optimize() == composition of the exposed passes is checked per grammar.",
   note="Same reference semantics as C01; passes reached through hook H3; bounded sizes/lengths.",
   design_ref="§3 C05"),
 "C08": dict(level="exploration", engine="sdoc-explorer",
   technique="bounded exhaustive enumeration of failing parses against the attempt-forest oracle (furthest position, soundness of both lists, collapse rule as equality with the fold)",
   text="Every failing (grammar, rule, input) of the shared corpus on the VM: reported position must be the furthest reportable attempt, every listed rule must have been attempted exactly there with the right polarity, lists strictly ascending, and the lists must equal the fold of DESIGN Appendix B over the attempt forest of S_doc on the optimized rules; wherever the two attempt-merging passes (factor, list) did not apply, the same fold on the written (unoptimized) grammar must give the same report, so a pass that removes reportable attempts is seen.",
   note="Reportable = non-silent rule or EOI whose rule() runs outside Atomic mode. Generated back-end: through C02's VM/generator equality on error position and lists.",
   design_ref="§3 C08, Appendix B"),
 "C12": dict(level="exploration", engine="sdoc-explorer",
   technique="exhaustive limit sweep 1..=C+1 (C = exact call count from hook H2) over a bounded exhaustive corpus",
   text="For every case of the small corpus the unlimited result and the exact number of tracked calls C are obtained, then every limit from 1 to C+1 is run, with detailed error tracking off and on, on the VM and (compiled corpus) on the generated back-end: each result must equal the unlimited one or be 'call limit reached', and completing limits must be upward closed.",
   note="Process-global limit owned by single-threaded workers; cases needing more than 60 (quick) / 400 (thorough) calls are counted and skipped.",
   design_ref="§3 C12"),
 "C15": dict(level="exploration", engine="sdoc-explorer",
   technique="bounded exhaustive differential run of every case with error detail off and on",
   text="Every case of the shared corpus is parsed with set_error_detail(false) and (true): results must be identical; with detail on the attempts must name a boundary position inside the input, the accessor lists must be readable and parse_attempts_error must render without panic.",
   note="Process-global switch owned by single-threaded workers.",
   design_ref="§3 C15"),
})
CHECKS["C06"] = dict(level="exploration", engine="sdoc-explorer",
   technique="bounded exhaustive enumeration of recursion-shaped stack-free grammars; exact divergence detection in S_doc confirmed by executing the real VM in a sacrificial child; syntactic guardedness predicate for the completeness half",
   text="Every operator context (nested to depth 2, 3 in the thorough tier) around a reference closing a cycle of length 1-3 through rules of every modifier, every small WHITESPACE/COMMENT body, the plain size-ordered corpus and acyclic controls: if pest accepts the grammar, S_doc (whose cycle criterion is exact for stack-free grammars) must not diverge on any rule and input up to the bound, and each divergence is confirmed on the real engine (stack overflow / timeout in a child process) before it is reported; every grammar satisfying the guarded predicate of DESIGN Appendix C must be accepted.",
   note="Stack-free grammars only (as the property states); rejection for the unrelated grammar-extras rule 'tags on silent rules' is excluded and counted.",
   design_ref="§3 C06, Appendix C")
CHECKS.update({
 "C10": dict(level="exploration", engine="text-enumerator",
   technique="complete enumeration of all strings up to a length bound over {a, é, 😀, LF, CR, TAB} x all offsets x all offset pairs against direct references; rendered errors parsed back",
   text="For every string up to the bound (quick 7 / thorough 8 characters for offsets, 6 / 7 for offset pairs) every byte offset 0..=len+1 and every pair of offsets (including unordered and non-boundary ones) is checked: Position::new / Span::new succeed exactly on (ordered) boundaries; line/column from Position, from Pair (LineIndex) and from Error equal the newline/character counts; line_of, lines(), lines_span() equal the reference lines; Display of errors built from every position and span never panics and, parsed back, shows the reference line number, that line's text and the ^ marker under the reported column.",
   note="Closed-interval reading of 'lines that overlap the span'; CR/LF removal or visualisation in the displayed line is accepted; for multi-line spans only header, first line and absence of panics are judged.",
   design_ref="§3 C10"),
 "C13": dict(level="exploration", engine="pratt-enumerator",
   technique="exhaustive enumeration of operator tables x well-formed token sequences against an independent shunting-yard",
   text="All tables of <= 4 operators over {prefix, postfix, infix-L, infix-R} x 3 levels (917 tables incl. mixed associativity within a level) x every well-formed sequence up to 9 (quick) / 12 (thorough) tokens (+2 for tables of <= 2 operators): PrattParser, ConstPrattParser<1..4> and, on infix-only single-associativity tables, PrecClimber must produce exactly the position-labelled S-expression of a classical two-stack shunting-yard using the statement's binding powers.",
   note="Ill-formed sequences are out of scope (documented panics).",
   design_ref="§3 C13"),
 "C16": dict(level="exploration", engine="unicode-enumerator",
   technique="complete enumeration of all 1,112,064 scalar values x all advertised property names x access paths",
   text="Every scalar value: exactly one two-letter category, each of the 8 groups equals the union of its members, scripts pairwise disjoint, function == by_name for all 259 names; every name resolves and validates. Parser paths (pest_vm, and a parser derived at harness build time with one rule per name): thorough = every scalar x every name; quick = both neighbours of every change point of every property, a set on which any two distinct tables differ.",
   note="Table contents are not compared with an external UCD copy (none is available offline); the property's structural statements are the oracle.",
   design_ref="§3 C16"),
 "C18": dict(level="exploration", engine="json-enumerator",
   technique="exhaustive enumeration of fragment sequences and character-level sub-languages against an RFC 8259 recursive-descent recogniser that also yields the expected pair tree",
   text="All sequences of <= 4 (quick) / 5 (thorough) fragments over a 38-fragment JSON alphabet, <= 6/7 structural fragments, and all strings over the number, string and nesting sub-alphabets up to 8/6/7 (quick) and 10/8/9 (thorough) characters: JsonParser accepts exactly when the recogniser does and returns exactly its tree (json(value(..), EOI) with object/pair/array/string/number/bool/null and byte spans).",
   note="Depth bounded by enumeration length.",
   design_ref="§3 C18"),
})
CHECKS.update({
 "C03": dict(level="model_checking", engine="parser-state-mc",
   technique="exhaustive enumeration of ParserState call trees x inputs, executed on the real ParserState and on the operational model S_op, complete-state comparison (hook H1); memchr and no-memchr builds",
   text="All call trees up to 5 (quick) / 6 (thorough) nodes over 20 core leaves, 12 unary combinators and and_then/or_else, each after 5 preludes that build non-initial stacks and queues; every skip_until list of <= 3 strings in 8 contexts; every stack_match_peek_slice index pair and direction on stacks of depth 0-3; directed nested stack-transaction programs; all inputs over {a,b,é} up to the bound; both feature builds. After every program the full real state (position, token queue with partner indices and tags, stack, lookahead, atomicity) must equal the model's for Ok and Err alike; the all-or-nothing clauses are also probed directly around every sequence/lookahead/rule node.",
   note="S_op is the executable reading of the doc comments; repeat is driven by a counting closure; attempt tracking is C08's subject.",
   design_ref="§3 C03"),
 "C04": dict(level="model_checking", engine="pairs-views-mc",
   technique="exhaustive enumeration of forests x span assignments x tag placements (PairsBuilder) and of parse trees of the grammar corpus, each observed through every view under every interleaving of next/next_back, against a plain tree",
   text="Every ordered forest up to 5 (quick) / 6 (thorough) nodes x every assignment of non-decreasing boundary positions over \"aé\\nb\", \"ab\", \"\" x tag placements, built with PairsBuilder; plus every distinct successful parse tree of the small grammar corpus (VM, default and grammar-extras), whose token stream must first be balanced, nested, rule-matched, non-decreasing and on boundaries. All 2^k interleavings of next/next_back on Pairs (recursively into_inner and Pairs::single of every node), flatten() and tokens(), with len/size_hint/peek/is_empty after every step; as_str, as_span, concat, line_col, tags, find_tagged, Display, {:#}, Debug and JSON recomputed from the tree.",
   note="Expected Display/Debug/JSON texts are rebuilt from the tree by the harness; for an empty window only the empty pairs list of the JSON is judged.",
   design_ref="§3 C04"),
})
CHECKS.update({
 "C07": dict(level="exploration", engine="front-explorer",
   technique="bounded exhaustive enumeration of abstract rule sets x concrete spellings (deviation-bounded) read back through the real reader",
   text="Abstract grammars (every leaf kind under every operator and modifier; all trees up to size 5/6 over two leaves with both association shapes; two-rule grammars) are printed with only the precedence-required parentheses and respelled with every single deviation (each gap x 7 spacing/comment fillers, all gaps at once, doc comments, redundant parentheses per node, leading | per expression, each literal character in three escape forms, PEEK[..j]); thorough adds pairs of deviations. parser::parse + consume without the validator (hook H4) must return exactly the abstract rules.",
   note="\\xNN = U+00NN for all NN; default and grammar-extras builds.",
   design_ref="§3 C07"),
 "C09": dict(level="exploration", engine="front-explorer",
   technique="bounded exhaustive enumeration of fragment sequences, of all prefixes and single-lexeme edits of the repository's real grammars, and nesting sweeps, in watchdog-supervised worker processes",
   text="Every text of the corpus (70-fragment alphabet, k <= 3/4; body fragments k <= 3/5 in two rule frames; every prefix and every lexeme deletion/duplication/substitution of every real grammar; nesting and length sweeps to 256/512) must make parse_and_optimize and docs::consume return without panic, abort or hang, with every error located inside the text on character boundaries and renderable (also after renamed_rules). Two recorded findings (stack overflow at nesting depth 4096; the repository's fuzzsample2.grammar does not return within 5 s) are exercised by directed witnesses in child processes.",
   note="Repetition counts bounded as the property allows; time is judged against a 20 s watchdog.",
   design_ref="§3 C09"),
 "C14": dict(level="translation_validation", engine="front-explorer",
   technique="three-way differential execution of the checked-in bootstrapped parser, the VM on grammar.pest and a freshly derived parser, on an exhaustive bounded text corpus x every rule of the meta grammar",
   text="For every (rule, text) program: same token tree, or same error position and same expected/unexpected name sets, across grammar.rs, Vm(parse_and_optimize(grammar.pest)) and a parser derived from grammar.pest at harness build time. Texts: C09's fragment sequences, all real grammars with prefixes, and every 1-3-lexeme window of them against all ~65 rules.",
   note="Rule-name tables are generated at build time from grammar.rs and grammar.pest; differing rule sets are reported.",
   design_ref="§3 C14"),
})
CHECKS["C17"] = dict(level="model_checking", engine="loom-debugger",
   technique="loom (DPOR with iterated preemption bound) over the real debugger source rebound to loom primitives; every explored schedule is a run of the real code checked against the reference entries of the parse (S_doc on the optimized rules); plus exhaustive command-line sessions of the real pest_debugger binary",
   text="The real debugger/src/lib.rs is recompiled with its std::sync / std::thread imports bound to loom-backed shims (build.rs, no repository hook; the shim mutex carries a witness cell so that loom's partial-order reduction also orders try_lock against lock) and seven controller scripts (run-to-end, breakpoint edits while stopped, re-run after the first event, immediate re-run with the precondition enforced exactly, re-run after the end, a surplus cont at the last stop followed by a re-run, the controller listing and editing the breakpoint set while the parser runs) are explored (with the S2 edit variants: delete, delete-all, delete-all-then-add, add-all, swap) for thirteen grammar/input/breakpoint scenarios (incl. breakpoints on built-ins, silent rules, implicit WHITESPACE, stack built-ins, an input beginning with a byte order mark, an input beginning with blanks) and channel capacities 1 and 2, at preemption bounds 0..4 (quick) and 0..6 plus unbounded with a time cap (thorough); scripts S1-S4 are additionally explored with one spurious return of thread::park (which std permits) at the first or second wait, at bounds 0..2. In every schedule the delivered events must equal the entries of the parse - taken from the reference model S_doc run on the optimized rules, with which the VM's own listener trace is compared sequentially - filtered by the breakpoint set and followed by Eof or the plain VM error text, nothing may arrive between a breakpoint and its cont, and every run() must return with all threads able to terminate (loom reports deadlocks). The command-line front end (debugger/src/main.rs) is driven as the real binary built from /repo: up to 10 session forms (options in three orders, typed commands in short and long verbs, mixtures, input given by `id`, a session that follows a run whose parsing thread panicked) x 13 scenarios, printed event stream compared with the same expectation.",
   note="More than one spurious park wake-up per execution, rendezvous channels (capacity 0) and orderings weaker than loom's C11 model are not explored; the bounded channel is the harness' loom model of sync_channel.",
   design_ref="§3 C17")
CHECKS["C02"] = dict(level="translation_validation", engine="compiled-corpus-differential",
   technique="differential execution of parsers generated by the current #[derive(Parser)] (corpus compiled at harness build time) against pest_vm on the same grammar text, exhaustively over rules x bounded inputs, in supervised worker processes",
   text="A corpus of ~1700 (quick) / ~5000 (thorough) grammars per feature configuration - every operator form x rule modifier x WHITESPACE/COMMENT modifier x caller modifier, size-ordered trees, all ASCII built-ins (also on non-ASCII look-alikes) and every advertised Unicode property name, grammars read from files through #[grammar = path] (raw CR/LF inside literals), user rules named like non-keyword built-ins, stack-op grammars, many-rule error shapes, and under grammar-extras tagged / PUSH_LITERAL forms - is compiled with the repository's current derive macro; every rule of every grammar is run on every input up to length 4 (5) by the generated parser and by the VM. Agreement: same flattened (rule, span, tag) list, or same error position and same expected/unexpected name sets, or both panic.",
   note="The corpus must compile, so its grammar bound is lower than C01's; grammars that pest accepts but that do not terminate are kept out; rebuilding the corpus after a change to pest/meta/generator costs ~15-25 s per configuration.",
   design_ref="§3 C02")
PENDING = {}

checks = []
for i in ids:
    if i in CHECKS:
        c = CHECKS[i]
        checks.append({
            "property_id": i,
            "quick_cmd": f"./check {i} --tier quick",
            "thorough_cmd": f"./check {i} --tier thorough",
            "evidence_file": f"/verif/evidence/{i}.json",
            "replay_cmd_template": f"./check {i} --replay {{path}}",
            "engine": c["engine"],
            "level_claimed": {"category": c["level"], "text": c["text"], "design_ref": c["design_ref"]},
            "level_note": c["note"],
            "technique": c["technique"],
        })
na = [{"property_id": i, "reason": PENDING.get(i, "check not built yet in this round; planned per DESIGN.md §3 (bounded exhaustive exploration applies)")} for i in ids if i not in CHECKS]
hooks_commits = [l.strip() for l in open(os.path.join(ROOT, "hooks_commits.txt"))] if os.path.exists(os.path.join(ROOT, "hooks_commits.txt")) else []
m = {
 "version": 1,
 "setup_cmd": "./check --setup",
 "hooks": {
   "guard": "verif-hooks (cargo feature of pest and pest_meta; off by default)",
   "enable": "harness crates depend on /repo/pest and /repo/meta by path with features = [\"verif-hooks\"]",
   "baseline_off_cmd": "cd /repo && cargo nextest run --workspace --no-fail-fast --offline",
   "source_commits": hooks_commits,
   "add_only": True,
 },
 "engines": [
   {"name": "history-bfs", "path": "/verif/harness/c11", "serves_properties": ["C11"], "kind_free_text": "explicit-state breadth-first search over operation histories of the real object, replay-rebuilt, lock-step reference model"},
   {"name": "parser-state-mc", "path": "/verif/harness/c03", "serves_properties": ["C03"], "kind_free_text": "program enumerator: ParserState call trees as data, one driver onto the real methods, one onto the operational model S_op; complete-state comparison through hook H1; built with and without memchr"},
   {"name": "pairs-views-mc", "path": "/verif/harness/c04", "serves_properties": ["C04"], "kind_free_text": "forest x span x tag enumerator through PairsBuilder plus parse trees from the sdoc corpus; all iterator interleavings on every view against a plain tree"},
   {"name": "front-explorer", "path": "/verif/harness/front", "serves_properties": ["C07", "C09", "C14"], "kind_free_text": "grammar front-end explorer: printer/respeller + reader round trip (C07), totality sweep in supervised worker processes (C09), three-way differential of the bootstrapped parser (C14); built twice (default, grammar-extras)"},
   {"name": "loom-debugger", "path": "/verif/harness/c17", "serves_properties": ["C17"], "kind_free_text": "loom model checker driving the real debugger source (imports rebound at build time); one child process per (script, scenario, capacity, preemption bound)"},
   {"name": "compiled-corpus-differential", "path": "/verif/harness/c02", "serves_properties": ["C02"], "kind_free_text": "corpus generator + 8 part crates per feature configuration compiled with the repository's derive macro; generated parser vs pest_vm differential in worker processes"},
   {"name": "text-enumerator", "path": "/verif/harness/c10", "serves_properties": ["C10"], "kind_free_text": "complete enumeration of short strings x offsets x offset pairs on the real Position/Span/LineIndex/Error code against direct references"},
   {"name": "pratt-enumerator", "path": "/verif/harness/c13", "serves_properties": ["C13"], "kind_free_text": "exhaustive operator tables x token sequences on the real PrattParser/ConstPrattParser/PrecClimber against a shunting-yard reference"},
   {"name": "unicode-enumerator", "path": "/verif/harness/c16", "serves_properties": ["C16"], "kind_free_text": "complete enumeration of scalar values x property names x access paths (function, by_name, VM, derived parser)"},
   {"name": "json-enumerator", "path": "/verif/harness/c18", "serves_properties": ["C18"], "kind_free_text": "exhaustive fragment / character sequences on the real derived JsonParser against an RFC 8259 recogniser"},
   {"name": "sdoc-explorer", "path": "/verif/harness/sdoc", "serves_properties": ["C01", "C05", "C06", "C08", "C12", "C15"], "kind_free_text": "bounded exhaustive grammar x input explorer: real pest_meta front-end + optimizer + pest_vm versus the S_doc reference evaluator; sharded over single-threaded worker processes with a watchdog; built twice (default, grammar-extras)"},
 ],
 "checks": checks,
 "not_applicable": na,
 "notes": "All checks are bounded exhaustive explorations of the real pest code against reference models (DESIGN.md). ./check <ID> rebuilds the harness against /repo's working tree on every invocation.",
}
json.dump(m, open(os.path.join(ROOT, "MANIFEST.json"), "w"), indent=1)
print("checks:", len(checks), "not_applicable:", len(na))
