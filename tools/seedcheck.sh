#!/bin/bash
# tools/seedcheck.sh <patch.diff> <ID> [<ID>...]   apply a seeded change to /repo, run the quick checks, undo it.
PATCH="$1"; shift
cd /repo || exit 2
if [ -n "$(git status --porcelain)" ]; then echo "/repo not clean"; exit 2; fi
git apply "$PATCH" || { echo "patch does not apply"; exit 2; }
trap 'git -C /repo checkout -- . ' EXIT
for id in "$@"; do
  t0=$(date +%s)
  out="$(cd /verif && ./check "$id" --tier "${TIER:-quick}" 2>&1)"; rc=$?
  nv=$(echo "$out" | grep -c "^VIOLATION")
  echo "== $id rc=$rc violations_printed=$nv ($(( $(date +%s) - t0 ))s)"
  echo "$out" | grep -A1 "^VIOLATION" | head -${SHOW:-4} | cut -c1-700
  echo "$out" | tail -1 | cut -c1-300
done
