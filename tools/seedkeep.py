#!/usr/bin/env python3
"""tools/seedkeep.py <prop> <name> <seeddir> <needs> <caught_by_json>  — archive a confirmed seeded change under /verif/seeded/<name>/."""
import sys, os, shutil, json, subprocess
prop, name, sd, needs, caught = sys.argv[1:6]
dst = f"/verif/seeded/{name}"
if os.path.exists(dst): shutil.rmtree(dst)
os.makedirs(dst)
shutil.copy(f"{sd}/patch.diff", f"{dst}/patch.diff")
if os.path.isdir(f"{sd}/demo"):
    shutil.copytree(f"{sd}/demo", f"{dst}/demo", ignore=shutil.ignore_patterns("target", "Cargo.lock"))
if os.path.exists(f"{sd}/notes.md"): shutil.copy(f"{sd}/notes.md", f"{dst}/notes.md")
meta = {
 "breaks_property": prop,
 "origin": "written by an independent sub-agent that saw only the property text and a scratch worktree of /repo",
 "needs_to_manifest": needs,
 "confirmed": "applied in a scratch worktree: builds, repository suite still 528 passed + the one always-failing test (tools/baseline.sh), demo fails with the change and passes without it (tools/seedverify.sh)",
 "checks_run": json.loads(caught),
 "how_to_rerun": f"tools/seedcheck.sh seeded/{name}/patch.diff <ID>",
}
json.dump(meta, open(f"{dst}/meta.json", "w"), indent=1)
print("kept", dst)
