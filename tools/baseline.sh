#!/bin/bash
# tools/baseline.sh [repo-dir]  — run the repository's pinned suite (hooks off) and compare with BASELINE.json:
# prints PASS if 528 tests pass and the only failure is the always-failing pest_vm::surround quote.
DIR="${1:-/repo}"
LOG="$(mktemp)"
( cd "$DIR" && CARGO_NET_OFFLINE=true cargo nextest run --workspace --no-fail-fast --offline ) >"$LOG" 2>&1
SUMMARY="$(grep -E "^\s+Summary" "$LOG" | tail -1)"
FAILS="$(grep -E "^\s+(FAIL|SIGABRT|SIGSEGV|TIMEOUT)" "$LOG" | sed -E 's/^\s+\S+\s+\[[^]]*\]\s+(\([^)]*\)\s+)?//' | sort -u)"
echo "$SUMMARY"
echo "failing: $(echo $FAILS | tr '\n' ' ')"
PASSED="$(echo "$SUMMARY" | sed -nE 's/.* ([0-9]+) passed.*/\1/p')"
if [ "$PASSED" = "528" ] && [ "$FAILS" = "pest_vm::surround quote" ]; then echo "BASELINE PASS"; rm -f "$LOG"; exit 0; fi
if [ -z "$SUMMARY" ]; then tail -30 "$LOG"; fi
echo "BASELINE FAIL (log: $LOG)"; exit 1
