#!/bin/bash
# tools/seedverify.sh <worktree> <seeddir>   confirm a seeded change: applies, builds, baseline suite green, demo fails with / passes without.
WT="$1"; SD="$2"
cd "$WT" || exit 2
git checkout -q -- . ; git clean -fdq -e target
git apply "$SD/patch.diff" || { echo "APPLY FAIL"; exit 1; }
echo "-- baseline with patch:"; /verif/tools/baseline.sh "$WT" | tail -2
if [ -d "$SD/demo" ]; then
  rundemo() { if [ -f "$SD/demo/src/main.rs" ]; then ( cd "$SD/demo" && cargo run -q --offline >/tmp/demo.out 2>&1; echo "cargo run exit=$?"; tail -3 /tmp/demo.out ); else ( cd "$SD/demo" && cargo test --offline 2>&1 | grep -E "^test result|error\[|panicked" | grep -v "0 passed; 0 failed" | head -5 ); fi; }
  echo "-- demo with patch (expect failure):"; rundemo
  git checkout -q -- .
  echo "-- demo without patch (expect pass):"; rundemo
fi
git checkout -q -- .
