#!/bin/bash
# tools/seedverify.sh <worktree> <seeddir>   confirm a seeded change: applies, builds, baseline suite green, demo fails with / passes without.
WT="$1"; SD="$2"
cd "$WT" || exit 2
git checkout -q -- . ; git clean -fdq -e target
git apply "$SD/patch.diff" || { echo "APPLY FAIL"; exit 1; }
echo "-- baseline with patch:"; /verif/tools/baseline.sh "$WT" | tail -2
if [ -d "$SD/demo" ]; then
  echo "-- demo with patch (expect failure):"; ( cd "$SD/demo" && cargo test --offline 2>&1 | grep -E "^test result|error\[|panicked" | head -5 )
  git checkout -q -- .
  echo "-- demo without patch (expect pass):"; ( cd "$SD/demo" && cargo test --offline 2>&1 | grep -E "^test result|error\[" | head -5 )
fi
git checkout -q -- .
