import sys
pid=sys.argv[1]
prop=open(f'/verif/tools/props/prop_{pid}.txt').read()
print(f"""You are helping to evaluate a verification effort for the Rust project pest (a PEG parser generator). Your job is to play the adversary: produce a realistic *defect* — a small source change to the project that breaks the semantic property below, while still compiling and while the project's existing test suite still passes.

THE PROPERTY (this is all you get about what is being verified):
----
{prop}----

YOUR WORKSPACE: a private git worktree of the project at /tmp/wt_{pid} (work ONLY inside /tmp/wt_{pid} and /tmp/seed_{pid}; never touch /repo or /verif and do not read anything under /verif). The sandbox is offline: always pass --offline to cargo (e.g. `cd /tmp/wt_{pid} && cargo build --offline`). Use the worktree's own target directory (the default ./target inside the worktree).

WHAT TO PRODUCE — two *different* defects if you can manage (at least one), each in its own sub-directory /tmp/seed_{pid}/m1 and /tmp/seed_{pid}/m2:
  1. patch.diff  — `git diff` of the change against the worktree's HEAD (apply-able with `git apply`). Keep it small (a few lines), realistic (the kind of slip a maintainer could make in a refactor or optimisation: cursor/offset logic, forgotten restore, wrong guard, wrong index, swapped branch, stale cached value, two sites that each look fine alone), and NOT guarded by any cfg/feature.
  2. demo — a demonstration that FAILS with the change and PASSES without it: either a Rust test file / small cargo example you add in a scratch location, or a tiny standalone crate under /tmp/seed_{pid}/mN/demo that depends on the worktree crates by path (path = "/tmp/wt_{pid}/pest" etc., build it with --offline; if it needs a Cargo.lock copy /tmp/wt_{pid}/Cargo.lock next to its Cargo.toml). Include the exact commands to run it in notes.md.
  3. notes.md — which part of the property it breaks, what specific circumstance is needed for it to manifest, and the commands you ran with their results.

HARD REQUIREMENTS for each defect:
  * The project still compiles: `cargo build --offline --workspace` succeeds.
  * The existing test suite still passes exactly as before: run `cd /tmp/wt_{pid} && cargo nextest run --workspace --no-fail-fast --offline 2>&1 | tail -5` — the pristine tree gives "528 passed, 1 failed" where the single failure is `pest_vm::surround quote` (it fails on the pristine tree too). With your change it must still be 528 passed and only that same failure. If your change turns any other test red, pick a different change.
  * It must need something SPECIFIC to manifest — a particular multi-step sequence of operations, an unusual input or grammar shape, a particular combination of features, two cooperating sites — not something that ordinary use would expose at once (the existing tests passing is evidence of that).
  * It must genuinely violate the property as stated (not merely change an internal detail, a message text or performance).
  * Do not weaken or edit existing tests. Do not change public API signatures.

When done with a defect, save the diff (`cd /tmp/wt_{pid} && git diff > /tmp/seed_{pid}/mN/patch.diff`), then REVERT the worktree (`git checkout -- .` and remove untracked files you added inside the worktree) before starting the next one, so each patch is independent and applies to a clean HEAD. At the very end leave the worktree clean (git status shows nothing).

Report back briefly: for each defect, one paragraph (what you changed, why the property breaks, what it takes to manifest) and the paths of the files you wrote.""")
