import sys
pid=sys.argv[1]; avoid=sys.argv[2]
base=open(f'/tmp/prompt_{pid}.txt').read() if False else None
import subprocess
p=subprocess.run(['python3','/tmp/agent_prompt.py',pid],capture_output=True,text=True).stdout
p=p.replace('WHAT TO PRODUCE —', f'''SECOND ROUND: simpler defects for this property have already been written by others; do NOT repeat these ideas: {avoid}. Look for a *different and subtler* defect: one that needs a larger or more unusual structure, a specific combination of features (e.g. the grammar-extras feature, a build without memchr, error detail on, a call limit set), multi-byte input, three or more cooperating rules, or a deeper operation history. It must still satisfy all requirements below.

WHAT TO PRODUCE —''')
print(p)
