import sys, os, subprocess
pid=sys.argv[1]
names=[d for d in sorted(os.listdir('/verif/seeded')) if d.startswith(pid+'-') or d.startswith('own-'+pid)]
# describe previous ideas by their directory slug (no /verif content beyond that)
avoid='; '.join(n.split('-',2)[-1].replace('-',' ') if n.count('-')>=2 else n for n in names)
p=subprocess.run(['python3','/verif/tools/agent_prompt_base.py',pid],capture_output=True,text=True).stdout
p=p.replace('WHAT TO PRODUCE —', f'''EIGHTH ROUND: several defects for this property have already been written by others; do NOT repeat these ideas (short slugs): {avoid}. Look for a *different* defect in a different function or file than those slugs suggest — read the code the property touches widely (all crates: pest, meta, generator, derive, vm, grammars, debugger) and pick a place nobody would look at first (earlier rounds showed that checks tend to miss: a second public entry point that does the same job as the obvious one, a path that is only taken with a non-default switch or feature combination, values one step outside the usual small alphabets such as long tokens, many lines, unusual code points, exactly-equal bounds, and defects that are present in two back-ends at once): a rarely used public API entry point, a non-default cargo feature, an iterator adaptor, Display/Debug/serialisation paths the property mentions, boundary values (empty input, empty rule set, maximal indices, the last element, exactly-equal limits), multi-byte or unusual input, three or more cooperating rules, or a deep operation history. It must still satisfy all requirements below.

WHAT TO PRODUCE —''')
print(p)
